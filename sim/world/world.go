// Package world is the CLI world simulator (engine W): a world is a project tree (the
// simulator's disk), an HTTP script (its network), a clock/pid and a map-iteration schedule.
// One step is one run of the instrumented mockery binary as a child process on that tree.
package world

import (
	"bufio"
	"bytes"
	"crypto/sha256"
	"encoding/hex"
	"encoding/json"
	"fmt"
	"os"
	"path/filepath"
	"sort"
	"strings"
	"time"

	"verif/sim/core"
	"verif/sim/simrt"
)

// Fixed go.mod / go.sum of every world: complete, so that `go list` in -mod=readonly never
// has a reason to write into the tree.
const GoModTail = `
go 1.23

require github.com/stretchr/testify v1.10.0

require (
	github.com/davecgh/go-spew v1.1.1 // indirect
	github.com/pmezard/go-difflib v1.0.0 // indirect
	github.com/stretchr/objx v0.5.2 // indirect
	gopkg.in/yaml.v3 v3.0.1 // indirect
)
`

const GoSum = `github.com/davecgh/go-spew v1.1.1 h1:vj9j/u1bqnvCEfJOwUhtlOARqs3+rkHYY13jYWTU97c=
github.com/davecgh/go-spew v1.1.1/go.mod h1:J7Y8YcW2NihsgmVo/mv3lAwl/skON4iLHjSsI+c5H38=
github.com/pmezard/go-difflib v1.0.0 h1:4DBwDE0NGyQoBHbLQYPwSUPoCMWR5BEzIk/f1lZbAQM=
github.com/pmezard/go-difflib v1.0.0/go.mod h1:iKH77koFhYxTK1pcRnkKkqfTogsbg7gZNVY4sRDYZ/4=
github.com/stretchr/objx v0.5.2 h1:xuMeJ0Sdp5ZMRXx/aWO6RZxdr3beISkG5/G/aIRr3pY=
github.com/stretchr/objx v0.5.2/go.mod h1:FRsXN1f5AsAjCGJKqEizvkpNtU+EGNCLh3NxZ/8L+MA=
github.com/stretchr/testify v1.10.0 h1:Xv5erBjTwe/5IxqUQTdXv5kgmIvbHo3QQyRwhJsOfJA=
github.com/stretchr/testify v1.10.0/go.mod h1:r2ic/lqez/lEtzL7wO/rwa5dbSLXVDPFyf8C91i36aY=
gopkg.in/yaml.v3 v3.0.1 h1:fxVm/GzAzEWqLHuvctI91KS9hhNmmWOoWu0XTYJS7CA=
gopkg.in/yaml.v3 v3.0.1/go.mod h1:K4uyk7z7BCEPqu6E+C64Yfv1cQ7kz7rIZviUmN+EgEM=
`

func GoMod(module string) string { return "module " + module + "\n" + GoModTail }

// Tree is a fully materialisable project tree: path → bytes; Dirs lists directories that must
// exist even if empty. The placeholder {{ROOT}} inside file contents is replaced by the
// absolute path of the materialised root (needed for file:// URLs and absolute dirs).
type Tree struct {
	Files map[string]string `json:"files"`
	Dirs  []string          `json:"dirs,omitempty"`
	// Links are symbolic links: path → target ({{ROOT}} is substituted). A link to /dev/full is
	// how a world gets a path on which every write fails with ENOSPC.
	Links map[string]string `json:"links,omitempty"`
}

func (t Tree) Clone() Tree {
	n := Tree{Files: map[string]string{}, Dirs: append([]string(nil), t.Dirs...)}
	for k, v := range t.Files {
		n.Files[k] = v
	}
	for k, v := range t.Links {
		if n.Links == nil {
			n.Links = map[string]string{}
		}
		n.Links[k] = v
	}
	return n
}

// Step is one child run on the tree.
type Step struct {
	Args []string          `json:"args,omitempty"` // arguments to mockery (none = plain run)
	Cwd  string            `json:"cwd,omitempty"`  // relative to the root
	Env  map[string]string `json:"env,omitempty"`  // MOCKERY_* etc.
	Plan simrt.Plan        `json:"plan"`
}

const RootPlaceholder = "{{ROOT}}"

func subst(s, root string) string { return strings.ReplaceAll(s, RootPlaceholder, root) }

// Materialise writes the tree under root (which must not exist or be empty).
func (t Tree) Materialise(root string) error {
	if err := os.MkdirAll(root, 0o755); err != nil {
		return err
	}
	for _, d := range t.Dirs {
		if err := os.MkdirAll(filepath.Join(root, d), 0o755); err != nil {
			return err
		}
	}
	for _, p := range core.SortedKeys(t.Files) {
		full := filepath.Join(root, p)
		if err := os.MkdirAll(filepath.Dir(full), 0o755); err != nil {
			return err
		}
		if err := os.WriteFile(full, []byte(subst(t.Files[p], root)), 0o644); err != nil {
			return err
		}
	}
	for _, p := range core.SortedKeys(t.Links) {
		full := filepath.Join(root, p)
		if err := os.MkdirAll(filepath.Dir(full), 0o755); err != nil {
			return err
		}
		if err := os.Symlink(subst(t.Links[p], root), full); err != nil {
			return err
		}
	}
	return nil
}

// Entry is one path of a snapshot.
type Entry struct {
	Path string `json:"path"`
	Kind string `json:"kind"` // file | dir | symlink | other
	Mode uint32 `json:"mode"`
	Hash string `json:"hash,omitempty"` // sha256 of content, or link target
}

type Snapshot map[string]Entry

func Snap(root string) (Snapshot, error) {
	s := Snapshot{}
	err := filepath.Walk(root, func(p string, info os.FileInfo, err error) error {
		if err != nil {
			return err
		}
		rel, _ := filepath.Rel(root, p)
		if rel == "." {
			return nil
		}
		e := Entry{Path: rel, Mode: uint32(info.Mode().Perm())}
		switch {
		case info.Mode()&os.ModeSymlink != 0:
			e.Kind = "symlink"
			e.Hash, _ = os.Readlink(p)
		case info.IsDir():
			e.Kind = "dir"
		case info.Mode().IsRegular():
			e.Kind = "file"
			b, err := os.ReadFile(p)
			if err != nil {
				return err
			}
			// the absolute location of the world is not part of its content: hashes must not
			// depend on the scratch directory of the process that materialised it
			b = bytes.ReplaceAll(b, []byte(root), []byte(RootPlaceholder))
			h := sha256.Sum256(b)
			e.Hash = hex.EncodeToString(h[:])
		default:
			e.Kind = "other"
		}
		s[rel] = e
		return nil
	})
	return s, err
}

func (s Snapshot) Digest() string {
	keys := core.SortedKeys(s)
	h := sha256.New()
	for _, k := range keys {
		e := s[k]
		fmt.Fprintf(h, "%s\x00%s\x00%o\x00%s\n", e.Path, e.Kind, e.Mode, e.Hash)
	}
	return hex.EncodeToString(h.Sum(nil))
}

// ReadRegular reads a file of a world only if it is a regular file: a world may hold a link to
// /dev/full (an endless device), which the harness must never follow.
func ReadRegular(path string) ([]byte, error) {
	info, err := os.Lstat(path)
	if err != nil {
		return nil, err
	}
	if !info.Mode().IsRegular() {
		return nil, fmt.Errorf("%s: not a regular file (%v)", path, info.Mode())
	}
	return os.ReadFile(path)
}

// HashBytes is the content hash used in snapshots.
func HashBytes(b []byte) string {
	h := sha256.Sum256(b)
	return hex.EncodeToString(h[:])
}

// TreeDigest is a canonical hash of a materialisable tree.
func TreeDigest(t Tree) string {
	h := sha256.New()
	for _, k := range core.SortedKeys(t.Files) {
		fmt.Fprintf(h, "%s\x00%s\x00", k, t.Files[k])
	}
	for _, k := range core.SortedKeys(t.Links) {
		fmt.Fprintf(h, "link\x00%s\x00%s\x00", k, t.Links[k])
	}
	ds := append([]string(nil), t.Dirs...)
	sort.Strings(ds)
	for _, d := range ds {
		fmt.Fprintf(h, "dir\x00%s\x00", d)
	}
	return hex.EncodeToString(h.Sum(nil)[:8])
}

// Diff lists paths whose entry differs between a and b (added, removed, changed).
func Diff(a, b Snapshot) []string {
	var out []string
	seen := map[string]bool{}
	for k, ea := range a {
		seen[k] = true
		eb, ok := b[k]
		if !ok {
			out = append(out, "removed:"+k)
		} else if ea != eb {
			out = append(out, "changed:"+k)
		}
	}
	for k := range b {
		if !seen[k] {
			out = append(out, "added:"+k)
		}
	}
	sort.Strings(out)
	return out
}

// Event is one line of the child's event log.
type Event struct {
	N    int      `json:"n"`
	Ev   string   `json:"ev"`
	Site string   `json:"site,omitempty"`
	Call int      `json:"call,omitempty"`
	Keys []string `json:"keys,omitempty"`
	Perm []int    `json:"perm,omitempty"`
	URL  string   `json:"url,omitempty"`
	Idx  int      `json:"idx,omitempty"`
	Kind string   `json:"kind,omitempty"`
	T    string   `json:"t,omitempty"`
}

type StepResult struct {
	Exit     int
	Stdout   string
	Stderr   string
	TimedOut bool
	Signal   string
	Events   []Event
	EvRaw    string
	Wall     time.Duration
}

// Panicked reports whether the child ended in an unrecovered Go panic / runtime fatal.
func (r StepResult) Panicked() bool {
	if r.Exit == 2 && (strings.Contains(r.Stderr, "panic:") || strings.Contains(r.Stderr, "goroutine 1 [running]") || strings.Contains(r.Stderr, "fatal error:")) {
		return true
	}
	if strings.Contains(r.Stderr, "\ngoroutine ") && strings.Contains(r.Stderr, "[running]:") {
		return true
	}
	return false
}

// HasDiagnostic reports whether the child printed an error-level diagnostic.
func (r StepResult) HasDiagnostic() bool {
	all := r.Stderr + "\n" + r.Stdout
	for _, m := range []string{" ERR ", " FTL ", "Error:", "error:", "failed"} {
		if strings.Contains(all, m) {
			return true
		}
	}
	return false
}

var runCounter = make(chan int, 1)

func init() { runCounter <- 0 }

func nextRun() int { n := <-runCounter; n++; runCounter <- n; return n }

// Run executes one step of mockery (bin) on the tree at root.
func Run(bin, root, tmpDir string, st Step, timeout time.Duration) StepResult {
	id := nextRun()
	planPath := filepath.Join(tmpDir, fmt.Sprintf("plan-%d.json", id))
	evPath := filepath.Join(tmpDir, fmt.Sprintf("ev-%d.jsonl", id))
	plan := st.Plan
	if plan.HTTP != nil {
		h := map[string][]simrt.Response{}
		for u, rs := range plan.HTTP {
			var nrs []simrt.Response
			for _, r := range rs {
				r.Body = subst(r.Body, root)
				nrs = append(nrs, r)
			}
			h[subst(u, root)] = nrs
		}
		plan.HTTP = h
	}
	pb, _ := json.Marshal(plan)
	os.WriteFile(planPath, pb, 0o644)
	defer os.Remove(planPath)
	defer os.Remove(evPath)
	extra := []string{"VERIF_PLAN=" + planPath, "VERIF_EVLOG=" + evPath}
	for _, k := range core.SortedKeys(st.Env) {
		extra = append(extra, k+"="+subst(st.Env[k], root))
	}
	cwd := root
	if st.Cwd != "" {
		cwd = filepath.Join(root, st.Cwd)
	}
	args := make([]string, len(st.Args))
	for i, a := range st.Args {
		args[i] = subst(a, root)
	}
	r := core.RunCmd(cwd, core.GoEnv(extra...), timeout, bin, args...)
	res := StepResult{Exit: r.Exit, Stdout: r.Stdout, Stderr: r.Stderr, TimedOut: r.TimedOut, Signal: r.Signal, Wall: r.Wall}
	if f, err := os.Open(evPath); err == nil {
		sc := bufio.NewScanner(f)
		sc.Buffer(make([]byte, 1<<20), 1<<24)
		var raw strings.Builder
		for sc.Scan() {
			var e Event
			if json.Unmarshal(sc.Bytes(), &e) == nil {
				res.Events = append(res.Events, e)
			}
			raw.Write(sc.Bytes())
			raw.WriteByte('\n')
		}
		f.Close()
		res.EvRaw = raw.String()
	}
	return res
}

// OrderVector is a canonical rendering of all map-order decisions of a run.
func (r StepResult) OrderVector() string {
	var b strings.Builder
	for _, e := range r.Events {
		if e.Ev == "order" {
			fmt.Fprintf(&b, "%s#%d%v;", e.Site, e.Call, e.Perm)
		}
	}
	return b.String()
}

// MultiKeySites counts order decisions over ≥2 keys.
func (r StepResult) MultiKeySites() int {
	n := 0
	seen := map[string]bool{}
	for _, e := range r.Events {
		if e.Ev == "order" && len(e.Keys) >= 2 && !seen[e.Site] {
			seen[e.Site] = true
			n++
		}
	}
	return n
}

func Plan(policy string, seed uint64, rotate int, clockYear int, pid int) simrt.Plan {
	return simrt.Plan{
		Schedule: simrt.Schedule{Policy: policy, Seed: seed, Rotate: rotate},
		Clock:    simrt.Clock{Start: fmt.Sprintf("%04d-03-04T05:06:07Z", clockYear), StepNs: 1_000_000},
		Pid:      pid,
	}
}

// RemoveAll removes a world directory even if it contains unwritable directories.
func RemoveAll(root string) {
	filepath.Walk(root, func(p string, info os.FileInfo, err error) error {
		if err == nil && info.IsDir() {
			os.Chmod(p, 0o755)
		}
		return nil
	})
	os.RemoveAll(root)
}
