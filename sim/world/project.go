package world

import (
	"encoding/json"
	"fmt"
	"sort"
	"strings"
)

// ---------------------------------------------------------------------------------------------
// Ordered YAML emitter (block style, JSON-quoted strings). Only what .mockery.yml needs.

type KV struct {
	K string
	V any // string | bool | int | []any | *Y | Raw
}

// Y is an ordered mapping.
type Y struct{ Items []KV }

// Raw is emitted verbatim as a scalar.
type Raw string

func NewY() *Y { return &Y{} }

func (y *Y) Set(k string, v any) *Y {
	for i := range y.Items {
		if y.Items[i].K == k {
			y.Items[i].V = v
			return y
		}
	}
	y.Items = append(y.Items, KV{k, v})
	return y
}

func (y *Y) Get(k string) (any, bool) {
	for _, it := range y.Items {
		if it.K == k {
			return it.V, true
		}
	}
	return nil, false
}

func (y *Y) Del(k string) {
	for i := range y.Items {
		if y.Items[i].K == k {
			y.Items = append(y.Items[:i], y.Items[i+1:]...)
			return
		}
	}
}

// Sub returns (creating if needed) the nested mapping under k.
func (y *Y) Sub(k string) *Y {
	if v, ok := y.Get(k); ok {
		if s, ok := v.(*Y); ok && s != nil {
			return s
		}
	}
	s := NewY()
	y.Set(k, s)
	return s
}

func (y *Y) Clone() *Y {
	if y == nil {
		return nil
	}
	n := NewY()
	for _, it := range y.Items {
		n.Items = append(n.Items, KV{it.K, cloneV(it.V)})
	}
	return n
}

func cloneV(v any) any {
	switch x := v.(type) {
	case *Y:
		return x.Clone()
	case []any:
		o := make([]any, len(x))
		for i := range x {
			o[i] = cloneV(x[i])
		}
		return o
	}
	return v
}

func q(s string) string { b, _ := json.Marshal(s); return string(b) }

func scalar(v any) (string, bool) {
	switch x := v.(type) {
	case string:
		return q(x), true
	case bool:
		return fmt.Sprint(x), true
	case int:
		return fmt.Sprint(x), true
	case float64:
		return fmt.Sprint(x), true
	case Raw:
		return string(x), true
	case nil:
		return "null", true
	case *Y:
		if x == nil {
			return "null", true
		}
		if len(x.Items) == 0 {
			return "{}", true
		}
	case []any:
		if len(x) == 0 {
			return "[]", true
		}
	}
	return "", false
}

func (y *Y) emit(b *strings.Builder, indent int) {
	pad := strings.Repeat("  ", indent)
	for _, it := range y.Items {
		if s, ok := scalar(it.V); ok {
			fmt.Fprintf(b, "%s%s: %s\n", pad, q(it.K), s)
			continue
		}
		switch x := it.V.(type) {
		case *Y:
			fmt.Fprintf(b, "%s%s:\n", pad, q(it.K))
			x.emit(b, indent+1)
		case []any:
			fmt.Fprintf(b, "%s%s:\n", pad, q(it.K))
			for _, el := range x {
				if s, ok := scalar(el); ok {
					fmt.Fprintf(b, "%s  - %s\n", pad, s)
				} else if m, ok := el.(*Y); ok {
					var sb strings.Builder
					m.emit(&sb, indent+2)
					lines := sb.String()
					// turn first line's indentation into "- "
					p2 := strings.Repeat("  ", indent+2)
					lines = strings.TrimPrefix(lines, p2)
					fmt.Fprintf(b, "%s  - %s", pad, lines)
				}
			}
		}
	}
}

func (y *Y) String() string {
	var b strings.Builder
	y.emit(&b, 0)
	return b.String()
}

// ---------------------------------------------------------------------------------------------
// Source corpus for engine W. Every method shape here yields mocks that compile on the
// unchanged tree with both built-in templates and every formatter.

type Method struct {
	Sig     string   // e.g. "Get(ctx context.Context, key string) (string, error)"
	Imports []string // import specs needed, e.g. `"context"` or `htmpl "html/template"`
}

var MethodPool = []Method{
	{"Get(ctx context.Context, key string) (string, error)", []string{`"context"`}},
	{"Put(ctx context.Context, key string, val []byte) error", []string{`"context"`}},
	{"Read(p []byte) (n int, err error)", nil},
	{"Copy(dst io.Writer, src io.Reader) (int64, error)", []string{`"io"`}},
	{"Render(t *template.Template, data map[string]int) error", []string{`"text/template"`}},
	{"RenderHTML(t *htmpl.Template, name string) (bool, error)", []string{`htmpl "html/template"`}},
	{"Both(a *template.Template, b *htmpl.Template) string", []string{`"text/template"`, `htmpl "html/template"`}},
	{"Close() error", nil},
	{"Len() int", nil},
	{"Reset()", nil},
	{"Swap(a, b int) (int, int)", nil},
	{"Lookup(name string) (val string, ok bool)", nil},
	{"Fetch(u *url.URL, hdr http.Header) (*http.Response, error)", []string{`"net/url"`, `"net/http"`}},
	{"Wait(d time.Duration) <-chan struct{}", []string{`"time"`}},
	{"Apply(f func(int) string) []string", nil},
	{"Stat(name string) (os.FileInfo, error)", []string{`"os"`}},
	{"Rand(r *rand.Rand) int", []string{`"math/rand"`}},
	{"CRand(r *crand.Int) error", []string{`crand "math/big"`}},
	{"Sort(xs []string, less func(a, b string) bool)", nil},
	{"Encode(v any) ([]byte, error)", nil},
}

type Iface struct {
	Name    string
	Methods []int // indexes into MethodPool
	// XRef, when set, adds a method using a type from another package of the module:
	// "Use(x <qual>.Thing) error" with import of XRefPath.
	XRefPath string
	XRefQual string
	// Twin, when set, adds a method whose single parameter type mentions two different packages
	// that share one package name: "Pair(m map[tw0.Thing]tw1.Thing) (tw1.Thing, error)".
	Twin [2]string
}

type SrcFile struct {
	Name     string
	BuildTag string
	Ifaces   []Iface
	Extra    string // verbatim extra declarations
}

type Pkg struct {
	Dir   string // relative dir == import path suffix, e.g. "a/sub"
	Name  string // package clause
	Files []SrcFile
}

type Project struct {
	Module string
	Pkgs   []Pkg
	Config *Y                // .mockery.yml content
	Aux    map[string]string // auxiliary files (templates, schemas, user files…)
	Dirs   []string
	// ConfigPath is where the config is written ("" = .mockery.yml)
	ConfigPath string
	NoConfig   bool
	GoModText  string // overrides the default go.mod text when non-empty
	// Env holds MOCKERY_* settings that belong to the world's (fixed) environment.
	Env map[string]string
	// Links are symbolic links (path → target)
	Links map[string]string
}

func (p *Pkg) ImportPath(module string) string {
	if p.Dir == "" || p.Dir == "." {
		return module
	}
	return module + "/" + p.Dir
}

// twinAlias is the import alias a source file uses for one of two same-named packages.
func twinAlias(path string) string {
	b := []byte("tw_" + strings.TrimPrefix(path, "example.com/w/"))
	for i := range b {
		if c := b[i]; !(c >= 'a' && c <= 'z' || c >= 'A' && c <= 'Z' || c >= '0' && c <= '9' || c == '_') {
			b[i] = '_'
		}
	}
	return string(b)
}

func renderFile(pkgName string, f SrcFile) string {
	var b strings.Builder
	if f.BuildTag != "" {
		fmt.Fprintf(&b, "//go:build %s\n\n", f.BuildTag)
	}
	fmt.Fprintf(&b, "package %s\n\n", pkgName)
	imps := map[string]bool{}
	for _, ifc := range f.Ifaces {
		for _, mi := range ifc.Methods {
			for _, im := range MethodPool[mi].Imports {
				imps[im] = true
			}
		}
		if ifc.XRefPath != "" {
			imps[fmt.Sprintf("%s %q", ifc.XRefQual, ifc.XRefPath)] = true
		}
		if ifc.Twin[0] != "" {
			// one alias per path: two interfaces of a file may name the twins in either order
			imps[fmt.Sprintf("%s %q", twinAlias(ifc.Twin[0]), ifc.Twin[0])] = true
			imps[fmt.Sprintf("%s %q", twinAlias(ifc.Twin[1]), ifc.Twin[1])] = true
		}
	}
	if len(imps) > 0 {
		var l []string
		for im := range imps {
			l = append(l, im)
		}
		sort.Strings(l)
		b.WriteString("import (\n")
		for _, im := range l {
			fmt.Fprintf(&b, "\t%s\n", im)
		}
		b.WriteString(")\n\n")
	}
	for _, ifc := range f.Ifaces {
		fmt.Fprintf(&b, "type %s interface {\n", ifc.Name)
		for _, mi := range ifc.Methods {
			fmt.Fprintf(&b, "\t%s\n", MethodPool[mi].Sig)
		}
		if ifc.XRefPath != "" {
			fmt.Fprintf(&b, "\tUse(x %s.Thing) error\n", ifc.XRefQual)
		}
		if ifc.Twin[0] != "" {
			fmt.Fprintf(&b, "\tPair(m map[%s.Thing]%s.Thing) (%s.Thing, error)\n", twinAlias(ifc.Twin[0]), twinAlias(ifc.Twin[1]), twinAlias(ifc.Twin[1]))
		}
		b.WriteString("}\n\n")
	}
	if f.Extra != "" {
		b.WriteString(f.Extra)
		b.WriteString("\n")
	}
	return b.String()
}

// Tree renders the project into a materialisable tree.
func (p *Project) Tree() Tree {
	t := Tree{Files: map[string]string{}}
	if p.GoModText != "" {
		t.Files["go.mod"] = p.GoModText
	} else {
		t.Files["go.mod"] = GoMod(p.Module)
	}
	t.Files["go.sum"] = GoSum
	for _, pk := range p.Pkgs {
		for _, f := range pk.Files {
			path := f.Name
			if pk.Dir != "" && pk.Dir != "." {
				path = pk.Dir + "/" + f.Name
			}
			t.Files[path] = renderFile(pk.Name, f)
		}
	}
	if !p.NoConfig && p.Config != nil {
		cp := p.ConfigPath
		if cp == "" {
			cp = ".mockery.yml"
		}
		t.Files[cp] = p.Config.String()
	}
	for k, v := range p.Aux {
		t.Files[k] = v
	}
	t.Dirs = append(t.Dirs, p.Dirs...)
	for k, v := range p.Links {
		if t.Links == nil {
			t.Links = map[string]string{}
		}
		t.Links[k] = v
	}
	return t
}

// FindIface returns the declaration of the named interface.
func (p *Pkg) FindIface(name string) *Iface {
	for fi := range p.Files {
		for ii := range p.Files[fi].Ifaces {
			if p.Files[fi].Ifaces[ii].Name == name {
				return &p.Files[fi].Ifaces[ii]
			}
		}
	}
	return nil
}

// AllIfaces lists interface names of a package in (file, declaration) order, honouring
// build tags (files with a tag are included only if it is in tags).
func (p *Pkg) AllIfaces(tags map[string]bool) []string {
	var out []string
	files := append([]SrcFile(nil), p.Files...)
	sort.Slice(files, func(i, j int) bool { return files[i].Name < files[j].Name })
	for _, f := range files {
		if f.BuildTag != "" && !tags[f.BuildTag] {
			continue
		}
		for _, i := range f.Ifaces {
			out = append(out, i.Name)
		}
	}
	return out
}
