package world

import (
	"fmt"

	"verif/sim/core"
)

// GenOpts are the swarm knobs for the generic project generator.
type GenOpts struct {
	MinPkgs, MaxPkgs   int
	MaxIfacesPerPkg    int
	AllowRecursive     bool
	AllowMultiConfigs  bool
	AllowInPackage     bool
	AllowXRef          bool
	Templates          []string // built-in templates to draw from
	Formatters         []string
	ForceFileWriteRoot bool
	FlatTemplateData   bool
	DupNames           bool     // reuse the same interface names in every package
	Layout             []string // when set, use exactly these package directories
	// ManyFiles: the first package is spread over nine source files with one interface each
	// (anything that treats the files of a package concurrently or in directory order shows there)
	ManyFiles bool
}

var ifaceNames = []string{"Store", "Reader", "Fetcher", "Renderer", "Closer", "Sorter", "Codec", "Waiter", "Getter", "Putter", "Walker", "Mixer"}

// pkgLayouts are directory sets; nested ones make recursive configs interesting.
var pkgLayouts = [][]string{
	{"a", "b"},
	{"a", "a/b", "c"},
	{"a", "a/b", "a/b/c"},
	{"a", "a/b", "a/b/c", "a/d"},
	{"p", "p/q", "p/q/r", "p/s", "t"},
	{"x", "y", "z"},
	{"a", "a/b", "a/b/c", "a/b/c/d"},
	{"m/n", "m/o", "m/n/k"},
	// "p-x" sorts between "p" and "p/q": an unrelated package between an ancestor and its descendant
	{"p", "p-x", "p/q", "p/q/r"},
	{"a", "a.b", "a/b", "a/b/c", "z"},
	// several packages share one package name: which keeps the bare qualifier and which gets the
	// numbered alias must not depend on any internal order
	{"a/codec", "b/codec", "c"},
	{"k/util", "l/util", "m/util", "n"},
}

func baseName(dir string) string {
	for i := len(dir) - 1; i >= 0; i-- {
		if dir[i] == '/' {
			return dir[i+1:]
		}
	}
	return dir
}

// pkgIdent turns a directory base name into a package identifier.
func pkgIdent(s string) string {
	b := []byte(s)
	for i := range b {
		if b[i] == '-' || b[i] == '.' {
			b[i] = '_'
		}
	}
	return string(b)
}

// NestedLayouts are the layouts in which recursive configs nest; the last two put an unrelated
// package between an ancestor and its descendant in path order.
var NestedLayouts = [][]string{
	{"a", "a/b", "c"}, {"a", "a/b", "a/b/c"}, {"a", "a/b", "a/b/c", "a/d"}, {"p", "p/q", "p/q/r", "p/s", "t"}, {"a", "a/b", "a/b/c", "a/b/c/d"},
	{"p", "p-x", "p/q", "p/q/r"}, {"a", "a.b", "a/b", "a/b/c", "z"}, {"p", "p-x", "p/q", "p/q/r"},
	// a path that is a string prefix of a sibling without being its parent
	{"a", "a/b", "a/bc", "a/b/d"}, {"p", "pq", "p/r", "pq/s"},
	// more than ten packages: two-digit suffixes, lexicographic vs numeric order
	{"pkg1", "pkg2", "pkg3", "pkg4", "pkg5", "pkg6", "pkg7", "pkg8", "pkg9", "pkg10", "pkg11", "pkg1/sub"},
}

// GenPackages draws packages and interfaces.
func GenPackages(r *core.Rng, o GenOpts) []Pkg {
	var cands [][]string
	for _, l := range pkgLayouts {
		if len(l) >= o.MinPkgs && len(l) <= o.MaxPkgs {
			cands = append(cands, l)
		}
	}
	if len(cands) == 0 {
		cands = pkgLayouts[:1]
	}
	layout := core.Pick(r, cands)
	if len(o.Layout) > 0 {
		layout = o.Layout
	}
	var pkgs []Pkg
	nameIdx := r.Intn(len(ifaceNames))
	for pi, dir := range layout {
		pk := Pkg{Dir: dir, Name: pkgIdent(baseName(dir))}
		nIf := r.Range(1, o.MaxIfacesPerPkg)
		nFiles := 1
		if nIf > 1 && r.Bool() {
			nFiles = 2
		}
		if o.ManyFiles && pi == 0 {
			nIf, nFiles = 9, 9
		}
		files := make([]SrcFile, nFiles)
		for fi := range files {
			files[fi].Name = fmt.Sprintf("%s%d.go", pkgIdent(baseName(dir)), fi)
		}
		for k := 0; k < nIf; k++ {
			ifc := Iface{Name: ifaceNames[(nameIdx+k)%len(ifaceNames)]}
			nm := r.Range(1, 4)
			seen := map[int]bool{}
			for len(ifc.Methods) < nm {
				mi := r.Intn(len(MethodPool))
				if !seen[mi] {
					seen[mi] = true
					ifc.Methods = append(ifc.Methods, mi)
				}
			}
			if o.AllowXRef && pi > 0 && r.Chance(1, 4) {
				prev := pkgs[r.Intn(len(pkgs))]
				ifc.XRefPath = "example.com/w/" + prev.Dir
				ifc.XRefQual = "x" + prev.Name
			}
			if o.AllowXRef && pi > 1 {
				// two earlier packages with one name, both mentioned by a single parameter type
				for x := 0; x < len(pkgs) && ifc.Twin[0] == ""; x++ {
					for y := x + 1; y < len(pkgs); y++ {
						if pkgs[x].Name == pkgs[y].Name && r.Chance(2, 3) {
							ifc.Twin = [2]string{"example.com/w/" + pkgs[x].Dir, "example.com/w/" + pkgs[y].Dir}
							if r.Bool() {
								ifc.Twin[0], ifc.Twin[1] = ifc.Twin[1], ifc.Twin[0]
							}
							break
						}
					}
				}
			}
			files[k%nFiles].Ifaces = append(files[k%nFiles].Ifaces, ifc)
		}
		files[0].Extra = "// Thing is a plain type other packages may refer to.\ntype Thing struct{ N int }\n\n// Thing2 and Thing3 are replace-type targets.\ntype Thing2 struct{ N int }\n\ntype Thing3 struct{ N int }\n"
		pk.Files = files
		pkgs = append(pkgs, pk)
		if !o.DupNames {
			nameIdx += nIf
		}
	}
	return pkgs
}
