// Package simrt is the stdlib-only simulation runtime that verif-instr copies into the
// scratch copy of mockery (as internal/verifsim/simrt). It owns every source of
// nondeterminism the instrumented binary has: map-iteration order at rewritten range
// sites, the clock, the pid, and HTTP(S) origins. Everything is driven by the plan file
// named in VERIF_PLAN; every decision is appended to the event log named in VERIF_EVLOG.
//
// Logging never draws from the PRNG and never reads the real clock.
package simrt

import (
	"bytes"
	"encoding/json"
	"errors"
	"fmt"
	"io"
	"net/http"
	"os"
	"sort"
	"sync"
	"time"
)

type Schedule struct {
	Policy string `json:"policy"` // asc | desc | rotate | random | native
	Seed   uint64 `json:"seed"`
	Rotate int    `json:"rotate"`
}

type Clock struct {
	Start  string `json:"start"`   // RFC3339
	StepNs int64  `json:"step_ns"` // advance per read
}

type Response struct {
	Kind   string `json:"kind"` // ok | status | redirect | error | truncate
	Status int    `json:"status,omitempty"`
	Body   string `json:"body,omitempty"`
	To     string `json:"to,omitempty"`
	Text   string `json:"text,omitempty"`
	After  int    `json:"after,omitempty"`
}

type Plan struct {
	Schedule    Schedule              `json:"schedule"`
	Clock       Clock                 `json:"clock"`
	Pid         int                   `json:"pid"`
	HTTP        map[string][]Response `json:"http,omitempty"`
	HTTPDefault *Response             `json:"http_default,omitempty"`
}

var (
	mu      sync.Mutex
	plan    Plan
	loaded  bool
	rng     uint64
	evN     int
	evFile  *os.File
	now     time.Time
	calls   = map[string]int{}
	httpIdx = map[string]int{}
)

func load() {
	if loaded {
		return
	}
	loaded = true
	plan.Schedule.Policy = "native"
	if p := os.Getenv("VERIF_PLAN"); p != "" {
		b, err := os.ReadFile(p)
		if err != nil {
			fmt.Fprintf(os.Stderr, "simrt: cannot read plan: %v\n", err)
			os.Exit(97)
		}
		if err := json.Unmarshal(b, &plan); err != nil {
			fmt.Fprintf(os.Stderr, "simrt: cannot parse plan: %v\n", err)
			os.Exit(97)
		}
	}
	rng = plan.Schedule.Seed*0x9E3779B97F4A7C15 + 0x1234567
	if plan.Clock.Start != "" {
		t, err := time.Parse(time.RFC3339, plan.Clock.Start)
		if err != nil {
			fmt.Fprintf(os.Stderr, "simrt: bad clock: %v\n", err)
			os.Exit(97)
		}
		now = t
	} else {
		now = time.Date(2020, 1, 1, 0, 0, 0, 0, time.UTC)
	}
	if p := os.Getenv("VERIF_EVLOG"); p != "" {
		f, err := os.OpenFile(p, os.O_WRONLY|os.O_CREATE|os.O_APPEND, 0o644)
		if err == nil {
			evFile = f
		}
	}
}

func splitmix() uint64 {
	rng += 0x9E3779B97F4A7C15
	z := rng
	z = (z ^ (z >> 30)) * 0xBF58476D1CE4E5B9
	z = (z ^ (z >> 27)) * 0x94D049BB133111EB
	return z ^ (z >> 31)
}

func logEvent(m map[string]any) {
	if evFile == nil {
		return
	}
	evN++
	m["n"] = evN
	b, _ := json.Marshal(m)
	b = append(b, '\n')
	evFile.Write(b)
}

// Keys returns the keys of m in canonical (sorted by printed form) order.
func Keys[K comparable, V any](m map[K]V) []K {
	keys := make([]K, 0, len(m))
	for k := range m {
		keys = append(keys, k)
	}
	strs := make(map[K]string, len(keys))
	for _, k := range keys {
		strs[k] = fmt.Sprint(k)
	}
	sort.Slice(keys, func(i, j int) bool { return strs[keys[i]] < strs[keys[j]] })
	return keys
}

// Order permutes canonically sorted keys according to the run's schedule policy and
// records the decision.
func Order[K comparable](site string, keys []K) []K {
	mu.Lock()
	defer mu.Unlock()
	load()
	n := len(keys)
	calls[site]++
	perm := make([]int, n)
	for i := range perm {
		perm[i] = i
	}
	switch plan.Schedule.Policy {
	case "asc", "":
	case "desc":
		for i := range perm {
			perm[i] = n - 1 - i
		}
	case "rotate":
		if n > 0 {
			r := plan.Schedule.Rotate % n
			for i := range perm {
				perm[i] = (i + r) % n
			}
		}
	case "random":
		for i := n - 1; i > 0; i-- {
			j := int(splitmix() % uint64(i+1))
			perm[i], perm[j] = perm[j], perm[i]
		}
	case "native":
		// Seam disabled: whatever order Keys's own range produced is lost (Keys sorts), so
		// emulate Go by a real-map walk. Never used for a verdict.
		idx := make(map[int]struct{}, n)
		for i := 0; i < n; i++ {
			idx[i] = struct{}{}
		}
		p := 0
		for i := range idx {
			perm[p] = i
			p++
		}
	default:
		fmt.Fprintf(os.Stderr, "simrt: unknown schedule policy %q\n", plan.Schedule.Policy)
		os.Exit(97)
	}
	out := make([]K, n)
	ks := make([]string, n)
	for i, p := range perm {
		out[i] = keys[p]
	}
	for i, k := range keys {
		ks[i] = fmt.Sprint(k)
	}
	if n >= 2 {
		logEvent(map[string]any{"ev": "order", "site": site, "call": calls[site], "keys": ks, "perm": perm})
	}
	return out
}

// Now is the only clock instrumented code reads.
func Now() time.Time {
	mu.Lock()
	defer mu.Unlock()
	load()
	t := now
	step := plan.Clock.StepNs
	if step == 0 {
		step = int64(time.Millisecond)
	}
	now = now.Add(time.Duration(step))
	logEvent(map[string]any{"ev": "now", "t": t.Format(time.RFC3339Nano)})
	return t
}

func Getpid() int {
	mu.Lock()
	defer mu.Unlock()
	load()
	logEvent(map[string]any{"ev": "pid"})
	if plan.Pid != 0 {
		return plan.Pid
	}
	return 4242
}

type transport struct{}

type truncReader struct {
	r     io.Reader
	fired *bool
}

func (t truncReader) Read(p []byte) (int, error) {
	n, err := t.r.Read(p)
	if err == io.EOF {
		*t.fired = true
		return n, io.ErrUnexpectedEOF
	}
	return n, err
}

func (transport) RoundTrip(req *http.Request) (*http.Response, error) {
	mu.Lock()
	defer mu.Unlock()
	load()
	url := req.URL.String()
	var resp *Response
	idx := httpIdx[url]
	if lst, ok := plan.HTTP[url]; ok && len(lst) > 0 {
		i := idx
		if i >= len(lst) {
			i = len(lst) - 1
		}
		resp = &lst[i]
		httpIdx[url] = idx + 1
	} else if plan.HTTPDefault != nil {
		resp = plan.HTTPDefault
	} else {
		resp = &Response{Kind: "error", Text: "simrt: no route to host"}
	}
	logEvent(map[string]any{"ev": "http", "url": url, "idx": idx, "kind": resp.Kind, "status": resp.Status})
	mk := func(status int, body io.Reader, n int64) *http.Response {
		return &http.Response{
			Status:        fmt.Sprintf("%d %s", status, http.StatusText(status)),
			StatusCode:    status,
			Proto:         "HTTP/1.1",
			ProtoMajor:    1,
			ProtoMinor:    1,
			Header:        http.Header{"Content-Type": []string{"text/plain"}},
			Body:          io.NopCloser(body),
			ContentLength: n,
			Request:       req,
		}
	}
	switch resp.Kind {
	case "ok":
		st := resp.Status
		if st == 0 {
			st = 200
		}
		return mk(st, bytes.NewReader([]byte(resp.Body)), int64(len(resp.Body))), nil
	case "status":
		return mk(resp.Status, bytes.NewReader([]byte(resp.Body)), int64(len(resp.Body))), nil
	case "redirect":
		r := mk(302, bytes.NewReader(nil), 0)
		r.Header.Set("Location", resp.To)
		return r, nil
	case "error":
		return nil, errors.New(resp.Text)
	case "truncate":
		st := resp.Status
		if st == 0 {
			st = 200
		}
		b := []byte(resp.Body)
		if resp.After < len(b) {
			b = b[:resp.After]
		}
		fired := new(bool)
		return mk(st, truncReader{bytes.NewReader(b), fired}, -1), nil
	}
	return nil, fmt.Errorf("simrt: unknown response kind %q", resp.Kind)
}

// Install replaces the process-wide HTTP transport by the scripted one. Called from an
// init() in a file that exists only in the instrumented scratch copy.
func Install() {
	http.DefaultTransport = transport{}
}
