package core

import (
	"hash/fnv"
)

// Rng is a small splitmix64 generator. Every random choice of every check is drawn from an
// Rng derived from VERIF_SEED and a purpose key, so one integer decides everything.
type Rng struct{ s uint64 }

func NewRng(seed uint64) *Rng { return &Rng{s: seed} }

// Stream derives an independent generator keyed by purpose (e.g. "world", 17).
func Stream(seed uint64, purpose string, idx ...int) *Rng {
	h := fnv.New64a()
	h.Write([]byte(purpose))
	s := seed ^ h.Sum64()
	r := &Rng{s: s}
	for _, i := range idx {
		r.s ^= uint64(i+1) * 0xD6E8FEB86659FD93
		r.Uint64()
	}
	r.Uint64()
	return r
}

func (r *Rng) Uint64() uint64 {
	r.s += 0x9E3779B97F4A7C15
	z := r.s
	z = (z ^ (z >> 30)) * 0xBF58476D1CE4E5B9
	z = (z ^ (z >> 27)) * 0x94D049BB133111EB
	return z ^ (z >> 31)
}

func (r *Rng) Intn(n int) int {
	if n <= 0 {
		return 0
	}
	return int(r.Uint64() % uint64(n))
}

// Range returns an int in [lo, hi].
func (r *Rng) Range(lo, hi int) int { return lo + r.Intn(hi-lo+1) }

func (r *Rng) Bool() bool { return r.Uint64()&1 == 1 }

// Chance returns true with probability num/den.
func (r *Rng) Chance(num, den int) bool { return r.Intn(den) < num }

func Pick[T any](r *Rng, xs []T) T { return xs[r.Intn(len(xs))] }

func Shuffle[T any](r *Rng, xs []T) {
	for i := len(xs) - 1; i > 0; i-- {
		j := r.Intn(i + 1)
		xs[i], xs[j] = xs[j], xs[i]
	}
}
