package core

import (
	"bytes"
	"context"
	"crypto/sha256"
	"encoding/hex"
	"encoding/json"
	"fmt"
	"os"
	"os/exec"
	"path/filepath"
	"runtime"
	"sort"
	"strconv"
	"strings"
	"sync"
	"syscall"
	"time"
)

// Exit codes: 0 held, 1 violation, 2 build/instrumentation/watchdog trouble.
const (
	ExitOK        = 0
	ExitViolation = 1
	ExitTrouble   = 2
)

type Ctx struct {
	Prop     string
	Tier     string
	Seed     uint64
	VerifDir string // /verif
	RepoDir  string // $VERIF_REPO or /repo
	Scratch  string // fresh directory on tmpfs, removed at exit
	RepoCopy string // instrumented copy of RepoDir
	Bin      string // instrumented mockery
	Jobs     int
	Start    time.Time
	GoCache  string
}

func Troublef(format string, a ...any) {
	fmt.Fprintf(os.Stderr, "TROUBLE: "+format+"\n", a...)
	cleanupAll()
	os.Exit(ExitTrouble)
}

var (
	cleanMu  sync.Mutex
	cleanups []func()
)

func OnExit(f func()) { cleanMu.Lock(); cleanups = append(cleanups, f); cleanMu.Unlock() }

func cleanupAll() {
	cleanMu.Lock()
	defer cleanMu.Unlock()
	for i := len(cleanups) - 1; i >= 0; i-- {
		cleanups[i]()
	}
	cleanups = nil
}

func Exit(code int) { cleanupAll(); os.Exit(code) }

func NewCtx(prop, tier string) *Ctx {
	c := &Ctx{Prop: prop, Tier: tier, Start: time.Now()}
	c.VerifDir = os.Getenv("VERIF_DIR")
	if c.VerifDir == "" {
		exe, _ := os.Executable()
		c.VerifDir = filepath.Dir(filepath.Dir(exe))
	}
	c.RepoDir = os.Getenv("VERIF_REPO")
	if c.RepoDir == "" {
		c.RepoDir = "/repo"
	}
	c.Jobs = runtime.NumCPU()
	if j, err := strconv.Atoi(os.Getenv("VERIF_JOBS")); err == nil && j > 0 {
		c.Jobs = j
	}
	if s := os.Getenv("VERIF_SEED"); s != "" {
		v, err := strconv.ParseInt(s, 10, 64)
		if err != nil {
			u, err2 := strconv.ParseUint(s, 10, 64)
			if err2 != nil {
				Troublef("VERIF_SEED=%q is not an integer", s)
			}
			v = int64(u)
		}
		c.Seed = uint64(v)
	} else {
		c.Seed = DefaultSeed(prop, tier)
	}
	root := ""
	for _, cand := range []string{"/dev/shm", os.Getenv("TMPDIR"), "/var/tmp"} {
		if cand == "" {
			continue
		}
		if st, err := os.Stat(cand); err == nil && st.IsDir() {
			if f, err := os.CreateTemp(cand, "verif-probe"); err == nil {
				f.Close()
				os.Remove(f.Name())
				root = cand
				break
			}
		}
	}
	if root == "" {
		Troublef("no writable scratch root")
	}
	d, err := os.MkdirTemp(root, "verif-"+prop+"-")
	if err != nil {
		Troublef("scratch: %v", err)
	}
	c.Scratch = d
	OnExit(func() {
		// make everything removable (worlds may contain read-only dirs)
		filepath.Walk(d, func(p string, info os.FileInfo, err error) error {
			if err == nil && info.IsDir() {
				os.Chmod(p, 0o755)
			}
			return nil
		})
		os.RemoveAll(d)
	})
	return c
}

func DefaultSeed(prop, tier string) uint64 {
	h := sha256.Sum256([]byte(prop + "/" + tier))
	var v uint64
	for i := 0; i < 6; i++ {
		v = v<<8 | uint64(h[i])
	}
	return v
}

// GoEnv returns a sanitised environment for running the go command on scratch copies of
// the repository (workspace mode, default toolchain, no proxy).
func GoEnv(extra ...string) []string {
	drop := []string{"GOFLAGS=", "GOWORK=", "GOPROXY=", "GOTOOLCHAIN=", "GOSUMDB=", "GONOSUMDB=", "GONOSUMCHECK=", "GONOSUMDB=", "GOINSECURE=", "MOCKERY_", "VERIF_PLAN=", "VERIF_EVLOG="}
	var env []string
	for _, kv := range os.Environ() {
		skip := false
		for _, d := range drop {
			if strings.HasPrefix(kv, d) {
				skip = true
			}
		}
		if !skip {
			env = append(env, kv)
		}
	}
	env = append(env, "GOPROXY=off", "GOFLAGS=", "TERM=dumb", "NO_COLOR=1", "TZ=UTC")
	if os.Getenv("HOME") == "" {
		env = append(env, "HOME=/root")
	}
	env = append(env, extra...)
	return env
}

type RunResult struct {
	Exit     int
	Stdout   string
	Stderr   string
	TimedOut bool
	Signal   string
	Wall     time.Duration
}

// RunCmd runs a command with a watchdog and captures its output.
func RunCmd(dir string, env []string, timeout time.Duration, name string, args ...string) RunResult {
	ctx, cancel := context.WithTimeout(context.Background(), timeout)
	defer cancel()
	cmd := exec.CommandContext(ctx, name, args...)
	cmd.Dir = dir
	cmd.Env = env
	cmd.SysProcAttr = &syscall.SysProcAttr{Setpgid: true}
	cmd.Cancel = func() error {
		if cmd.Process != nil {
			syscall.Kill(-cmd.Process.Pid, syscall.SIGKILL)
		}
		return nil
	}
	cmd.WaitDelay = 2 * time.Second
	var so, se bytes.Buffer
	cmd.Stdout = &so
	cmd.Stderr = &se
	t0 := time.Now()
	err := cmd.Run()
	res := RunResult{Stdout: so.String(), Stderr: se.String(), Wall: time.Since(t0)}
	if ctx.Err() == context.DeadlineExceeded {
		res.TimedOut = true
		res.Exit = -1
		return res
	}
	if err != nil {
		if ee, ok := err.(*exec.ExitError); ok {
			res.Exit = ee.ExitCode()
			if ws, ok := ee.Sys().(syscall.WaitStatus); ok && ws.Signaled() {
				res.Signal = ws.Signal().String()
			}
		} else {
			res.Exit = -2
			res.Stderr += "\nexec error: " + err.Error()
		}
	}
	return res
}

// PrepareRepo copies the repository's current working tree into the scratch directory,
// instruments it, and builds the instrumented mockery binary.
// GuardDisk keeps the Go build cache from filling the disk: every differently edited tree a check
// is run against adds its own compiled packages (about 1 GB), and nothing ever removes them. When
// less than 20 GiB are left on the cache's file system the cache is emptied (the next build is a
// cold one); a check never fails for it.
func GuardDisk() {
	dir, err := os.UserCacheDir()
	if err != nil {
		return
	}
	if d := os.Getenv("GOCACHE"); d != "" {
		dir = d
	}
	var st syscall.Statfs_t
	if syscall.Statfs(dir, &st) != nil {
		return
	}
	if free := st.Bavail * uint64(st.Bsize); free < 20<<30 {
		fmt.Fprintf(os.Stderr, "NOTE: %d GiB left on %s: emptying the Go build cache\n", free>>30, dir)
		RunCmd("", GoEnv(), 10*time.Minute, "go", "clean", "-cache")
	}
}

func (c *Ctx) PrepareRepo(buildMockery bool) {
	GuardDisk()
	c.RepoCopy = filepath.Join(c.Scratch, "repo")
	if r := RunCmd("", os.Environ(), 2*time.Minute, "rsync", "-a", "--exclude", ".git", c.RepoDir+"/", c.RepoCopy+"/"); r.Exit != 0 {
		Troublef("rsync failed: %s", r.Stderr)
	}
	instr := filepath.Join(c.VerifDir, "bin", "verif-instr")
	r := RunCmd(c.RepoCopy, GoEnv(), 5*time.Minute, instr, "-dir", c.RepoCopy,
		"-simrt", filepath.Join(c.VerifDir, "sim", "simrt", "simrt.go"), "-report", filepath.Join(c.Scratch, "instr-report.json"))
	if r.Exit != 0 {
		Troublef("instrumentation failed (exit %d):\n%s", r.Exit, r.Stderr)
	}
	if buildMockery {
		c.Bin = filepath.Join(c.Scratch, "bin", "mockery-sim")
		os.MkdirAll(filepath.Dir(c.Bin), 0o755)
		r = RunCmd(c.RepoCopy, GoEnv(), 10*time.Minute, "go", "build", "-trimpath", "-tags", "verif", "-o", c.Bin, ".")
		if r.Exit != 0 {
			Troublef("building instrumented mockery failed:\n%s\n%s", r.Stdout, r.Stderr)
		}
	}
}

type InstrReport struct {
	RangeSites []string `json:"range_sites"`
	ClockSites []string `json:"clock_sites"`
	PidSites   []string `json:"pid_sites"`
	Unseamed   []string `json:"unseamed"`
}

func (c *Ctx) InstrReport() InstrReport {
	var r InstrReport
	b, err := os.ReadFile(filepath.Join(c.Scratch, "instr-report.json"))
	if err == nil {
		json.Unmarshal(b, &r)
	}
	return r
}

// ---------------------------------------------------------------------------------------------
// worker pool: cases are numbered before dispatch and results folded in case order, so
// verdicts and counters do not depend on the worker count.

func ParallelMap[T any](jobs, n int, f func(i int) T) []T {
	out := make([]T, n)
	var wg sync.WaitGroup
	ch := make(chan int)
	if jobs < 1 {
		jobs = 1
	}
	for w := 0; w < jobs; w++ {
		wg.Add(1)
		go func() {
			defer wg.Done()
			for i := range ch {
				out[i] = f(i)
			}
		}()
	}
	for i := 0; i < n; i++ {
		ch <- i
	}
	close(ch)
	wg.Wait()
	return out
}

// ---------------------------------------------------------------------------------------------
// evidence

type Evidence struct {
	PropertyID  string         `json:"property_id"`
	Tier        string         `json:"tier"`
	Seed        int64          `json:"seed"`
	Level       string         `json:"level"`
	Coverage    map[string]any `json:"coverage"`
	Assumptions []string       `json:"assumptions"`
	WallS       float64        `json:"wall_s"`
	Violations  int            `json:"violations"`
}

func (c *Ctx) WriteEvidence(level string, coverage map[string]any, assumptions []string, violations int) {
	if os.Getenv("VERIF_NO_EVIDENCE") != "" {
		return // selftest child runs must not overwrite the evidence of real runs
	}
	ev := Evidence{
		PropertyID: c.Prop, Tier: c.Tier, Seed: int64(c.Seed & 0x7fffffffffffffff), Level: level, Coverage: coverage,
		Assumptions: assumptions, WallS: time.Since(c.Start).Seconds(), Violations: violations,
	}
	if evs, ok := coverage["evaluations"].(int); ok && ev.WallS > 0 {
		coverage["runs_per_hour"] = int(float64(evs) / ev.WallS * 3600)
	}
	b, err := json.MarshalIndent(ev, "", " ")
	if err != nil {
		Troublef("evidence: %v", err)
	}
	dir := filepath.Join(c.VerifDir, "evidence")
	os.MkdirAll(dir, 0o755)
	tmp := filepath.Join(dir, "."+c.Prop+".json.tmp")
	if err := os.WriteFile(tmp, append(b, '\n'), 0o644); err != nil {
		Troublef("evidence: %v", err)
	}
	if err := os.Rename(tmp, filepath.Join(dir, c.Prop+".json")); err != nil {
		Troublef("evidence: %v", err)
	}
}

// ---------------------------------------------------------------------------------------------
// violations, signatures, known findings, replay files

type Signature struct {
	Clause  string `json:"clause"`
	Site    string `json:"site"`
	Trigger string `json:"trigger"`
}

func (s Signature) String() string { return s.Clause + " | " + s.Site + " | " + s.Trigger }

type Replay struct {
	Format    int             `json:"format"`
	Property  string          `json:"property"`
	Engine    string          `json:"engine"`
	Seed      int64           `json:"seed"`
	Tier      string          `json:"tier"`
	Signature Signature       `json:"signature"`
	Case      json.RawMessage `json:"case"`
	Expected  string          `json:"expected"`
	Observed  string          `json:"observed"`
	Minimised string          `json:"minimised_from,omitempty"`
	Mode      string          `json:"mode"`
}

type KnownFinding struct {
	Status    string    `json:"status"` // "known" or "fixed"
	Property  string    `json:"property"`
	Signature Signature `json:"signature"`
	What      string    `json:"what"`
	Replay    string    `json:"replay,omitempty"` // canonical replay under known/
	Commit    string    `json:"commit,omitempty"`
}

func (c *Ctx) LoadKnown() []KnownFinding {
	var out []KnownFinding
	b, err := os.ReadFile(filepath.Join(c.VerifDir, "known_findings.json"))
	if err != nil {
		return nil
	}
	var f struct {
		Findings []KnownFinding `json:"findings"`
	}
	if err := json.Unmarshal(b, &f); err != nil {
		Troublef("known_findings.json: %v", err)
	}
	for _, k := range f.Findings {
		if k.Property == c.Prop {
			out = append(out, k)
		}
	}
	return out
}

// IsKnown reports whether sig is listed as a known (not fixed) finding.
func IsKnown(known []KnownFinding, sig Signature) *KnownFinding {
	for i := range known {
		if known[i].Status == "known" && known[i].Signature == sig {
			return &known[i]
		}
	}
	return nil
}

func (c *Ctx) WriteReplay(rp *Replay) string {
	rp.Format = 1
	rp.Property = c.Prop
	rp.Seed = int64(c.Seed & 0x7fffffffffffffff)
	rp.Tier = c.Tier
	b, _ := json.MarshalIndent(rp, "", " ")
	h := sha256.Sum256(b)
	dir := filepath.Join(c.VerifDir, "replays")
	os.MkdirAll(dir, 0o755)
	p := filepath.Join(dir, fmt.Sprintf("%s-%d-%s.json", c.Prop, rp.Seed, hex.EncodeToString(h[:4])))
	if err := os.WriteFile(p, append(b, '\n'), 0o644); err != nil {
		Troublef("replay: %v", err)
	}
	return p
}

func ReadReplay(path string) *Replay {
	b, err := os.ReadFile(path)
	if err != nil {
		Troublef("replay: %v", err)
	}
	var rp Replay
	if err := json.Unmarshal(b, &rp); err != nil {
		Troublef("replay %s: %v", path, err)
	}
	return &rp
}

func HashStr(parts ...string) string {
	h := sha256.New()
	for _, p := range parts {
		h.Write([]byte(p))
		h.Write([]byte{0})
	}
	return hex.EncodeToString(h.Sum(nil)[:8])
}

func SortedKeys[V any](m map[string]V) []string {
	ks := make([]string, 0, len(m))
	for k := range m {
		ks = append(ks, k)
	}
	sort.Strings(ks)
	return ks
}

// Counter is a deterministic (sorted-on-output) string counter.
type Counter struct {
	mu sync.Mutex
	m  map[string]int
}

func NewCounter() *Counter { return &Counter{m: map[string]int{}} }
func (c *Counter) Add(k string, n int) {
	c.mu.Lock()
	c.m[k] += n
	c.mu.Unlock()
}
func (c *Counter) Inc(k string) { c.Add(k, 1) }
func (c *Counter) Map() map[string]int {
	c.mu.Lock()
	defer c.mu.Unlock()
	out := map[string]int{}
	for k, v := range c.m {
		out[k] = v
	}
	return out
}
func (c *Counter) Get(k string) int { c.mu.Lock(); defer c.mu.Unlock(); return c.m[k] }
