package msim

import (
	"encoding/json"
	"fmt"
	"hash/fnv"
	"os"
	"sort"
	"strings"
	"time"

	"verif/sim/msim/simsync"
)

// Input is what the check orchestrator (verifctl) hands to one driver process.
type Input struct {
	Prop    string   `json:"prop"`
	Tier    string   `json:"tier"`
	Seed    uint64   `json:"seed"`
	Shard   int      `json:"shard"`
	Shards  int      `json:"shards"`
	N       int      `json:"n"`        // cases for this shard (upper bound)
	Total   int      `json:"total"`    // global number of cases: case indexes ≥ Total are not run
	BudgetS int      `json:"budget_s"` // wall-clock cap
	Known   []string `json:"known"`    // signatures of known findings (suppressed, counted)
	Replay  *Case    `json:"replay,omitempty"`
	List    bool     `json:"list,omitempty"`   // only list registrations
	Focus   string   `json:"focus,omitempty"`  // debugging aid: ignore candidates whose signature does not contain this text
	Triage  bool     `json:"triage,omitempty"` // list every distinct candidate signature, do not stop (never used by registered commands)
}

type Found struct {
	Violation Violation `json:"violation"`
	Case      Case      `json:"case"`
	Note      string    `json:"note"`
	CaseIndex int       `json:"case_index"`
}

type Output struct {
	Cases       int            `json:"cases"`
	Runs        int            `json:"runs"`
	Steps       int            `json:"steps"`
	Keys        []uint64       `json:"keys"`       // distinct non-trivial case×schedule hashes
	SchedKeys   []uint64       `json:"sched_keys"` // distinct schedules by the stated measure
	Tags        map[string]int `json:"tags"`
	Samples     []any          `json:"samples"`
	Found       *Found         `json:"found,omitempty"`
	KnownSeen   map[string]int `json:"known_seen"`
	Unsupported []string       `json:"unsupported"`
	Regs        []string       `json:"regs"`
	Inconcl     int            `json:"inconclusive"`
	Unrepro     int            `json:"unreproduced"`
	Trouble     string         `json:"trouble,omitempty"`
	WallS       float64        `json:"wall_s"`
	Candidates  []Violation    `json:"candidates,omitempty"`
}

func h64(parts ...string) uint64 {
	h := fnv.New64a()
	for _, p := range parts {
		h.Write([]byte(p))
		h.Write([]byte{0})
	}
	return h.Sum64()
}

// RunCase dispatches on the mock style / property.
func RunCase(regs map[string]*Registration, cs *Case) (*Violation, RunStats) {
	reg := regs[cs.Key]
	if reg == nil {
		return &Violation{Clause: "harness", Site: "registration", Expected: cs.Key, Observed: "not linked into this driver"}, RunStats{}
	}
	if reg.Style == "matryer" {
		return RunMatryer(reg, cs)
	}
	return RunTestify(reg, cs)
}

func pickS(r *Rng, xs []string) string { return xs[r.Intn(len(xs))] }

func schedFor(r *Rng) simsync.Config {
	return simsync.Config{Strategy: pickS(r, []string{"random", "random", "pct", "rr"}), Seed: r.U64(), MaxSteps: 4000, PCTDepth: 1 + r.Intn(3)}
}

// GenCase draws one case for a property.
func GenCase(prop string, regs []*Registration, r *Rng) *Case {
	var pool []*Registration
	only := os.Getenv("VERIF_STYLE") // debugging aid
	for _, reg := range regs {
		if only != "" && reg.Style != only {
			continue
		}
		switch prop {
		case "C04":
			if reg.Style == "matryer" {
				pool = append(pool, reg)
			}
		case "C03":
			if reg.Style == "testify" {
				pool = append(pool, reg)
			}
		default:
			pool = append(pool, reg)
		}
	}
	if len(pool) == 0 {
		return nil
	}
	reg := pool[r.Intn(len(pool))]
	cs := &Case{Prop: prop, Key: reg.Key(), Seed: r.U64(), NilRate: []int{0, 1, 2, 4, 6}[r.Intn(5)], Modes: map[string]string{}}
	ms := ifaceMethods(reg.IfaceType)
	names := make([]string, len(ms))
	for i := range ms {
		names[i] = ms[i].Name
	}
	if reg.Style == "testify" {
		for try := 0; try < 20; try++ {
			genTestifyCase(prop, reg, cs, ms, r)
			if len(cs.Tasks) > 0 {
				return cs
			}
			reg = pool[r.Intn(len(pool))]
			if reg.Style != "testify" {
				return GenCase(prop, regs, r)
			}
			cs.Key = reg.Key()
			ms = ifaceMethods(reg.IfaceType)
		}
		return cs
	}
	resets := reg.Opts["with-resets"]
	switch prop {
	case "C04":
		n := 1 + r.Intn(25)
		hot := ""
		if r.Chance(1, 5) {
			// one method called many times: record slices grow past their capacity steps
			hot = pickS(r, names)
			n = 20 + r.Intn(30)
		}
		var ops []Op
		for i := 0; i < n; i++ {
			m := pickS(r, names)
			if hot != "" && r.Chance(4, 5) {
				m = hot
			}
			switch k := r.Intn(20); {
			case k < 10:
				ops = append(ops, Op{Kind: "call", Method: m, Seed: r.U64()})
			case k < 14:
				ops = append(ops, Op{Kind: "calls", Method: m})
			case k < 16 && resets:
				ops = append(ops, Op{Kind: "reset", Method: m})
			case k < 17 && resets:
				ops = append(ops, Op{Kind: "resetall"})
			case k < 19:
				ops = append(ops, Op{Kind: "setfunc", Method: m, Mode: pickS(r, []string{"echo", "echo", "nil", "panic", "reentrant"})})
			default:
				ops = append(ops, Op{Kind: "call", Method: m, Seed: r.U64(), NArgs: 1}) // empty variadic list
			}
		}
		if resets && r.Chance(1, 60) {
			// a long-lived mock: one method's log grows to hundreds of records, is read, reset
			// (alone or with all others), read again and used again — behaviour that depends on the
			// size a log once had shows here
			ops = nil
			hot = pickS(r, names)
			for i, k := 0, 100+r.Intn(300); i < k; i++ {
				ops = append(ops, Op{Kind: "call", Method: hot, Seed: r.U64()})
			}
			ops = append(ops, Op{Kind: "calls", Method: hot})
			if r.Chance(1, 2) {
				ops = append(ops, Op{Kind: "reset", Method: hot})
			} else {
				ops = append(ops, Op{Kind: "resetall"})
			}
			ops = append(ops, Op{Kind: "calls", Method: hot})
			for i, k := 0, 1+r.Intn(3); i < k; i++ {
				ops = append(ops, Op{Kind: "call", Method: pickS(r, []string{hot, hot, pickS(r, names)}), Seed: r.U64()})
			}
			ops = append(ops, Op{Kind: "calls", Method: hot}, Op{Kind: "calls", Method: pickS(r, names)})
			cs.Modes["_workload"] = "long-lived-log"
		}
		cs.Tasks = [][]Op{ops}
		cs.Sched = simsync.Config{Strategy: "random", Seed: r.U64(), MaxSteps: 200000}
	default: // C05 on a matryer mock
		hot := pickS(r, names)
		if r.Chance(1, 6) {
			cs.Modes[pickS(r, names)] = "panic"
		}
		if r.Chance(1, 10) {
			cs.Modes[hot] = "reentrant"
		}
		if reg.Opts["stub-impl"] && r.Chance(1, 4) {
			cs.Modes[pickS(r, names)] = "nil"
		} else if !reg.Opts["stub-impl"] && r.Chance(1, 6) {
			// a method nobody gave a Func: its callers panic (and recover) while others go on
			cs.Modes[pickS(r, names)] = "nil"
		}
		nt := 2 + r.Intn(3)
		for t := 0; t < nt; t++ {
			var ops []Op
			no := 2 + r.Intn(3)
			if nt == 2 {
				no = 2 + r.Intn(5)
			}
			for i := 0; i < no; i++ {
				m := hot
				if r.Chance(1, 3) {
					m = pickS(r, names)
				}
				switch k := r.Intn(20); {
				case k < 11:
					ops = append(ops, Op{Kind: "call", Method: m, Seed: r.U64()})
				case k < 15:
					ops = append(ops, Op{Kind: "calls", Method: m})
				case k < 18 && resets:
					ops = append(ops, Op{Kind: "reset", Method: m})
				case k < 20 && resets:
					ops = append(ops, Op{Kind: "resetall"})
				default:
					ops = append(ops, Op{Kind: "call", Method: m, Seed: r.U64()})
				}
			}
			cs.Tasks = append(cs.Tasks, ops)
		}
		cs.Sched = schedFor(r)
	}
	return cs
}

func cloneCase(cs *Case) *Case {
	b, _ := json.Marshal(cs)
	var n Case
	json.Unmarshal(b, &n)
	return &n
}

// Shrink minimises a failing case while the signature stays the same.
func Shrink(regs map[string]*Registration, cs *Case, sig string, deadline time.Time) (*Case, string, int) {
	tries := 0
	fails := func(c *Case) bool {
		tries++
		cc := cloneCase(c)
		v, _ := RunCase(regs, cc)
		return v != nil && v.Sig() == sig
	}
	best := cloneCase(cs)
	// make the schedule explicit
	best.Sched.Strategy, best.Sched.Choices = "replay", append([]int(nil), cs.Sched.Choices...)
	if !fails(best) {
		return cs, "replay of recorded choices did not re-fail; original strategy kept", tries
	}
	ops0, tasks0, ch0 := 0, len(best.Tasks), len(best.Sched.Choices)
	for _, t := range best.Tasks {
		ops0 += len(t)
	}
	// 1. drop whole tasks
	for ti := len(best.Tasks) - 1; ti >= 0 && len(best.Tasks) > 1 && time.Now().Before(deadline); ti-- {
		cand := cloneCase(best)
		cand.Tasks = append(cand.Tasks[:ti], cand.Tasks[ti+1:]...)
		var ch []int
		for _, c := range best.Sched.Choices {
			switch {
			case c == ti:
			case c > ti:
				ch = append(ch, c-1)
			default:
				ch = append(ch, c)
			}
		}
		cand.Sched.Choices = ch
		if fails(cand) {
			best = cand
		}
	}
	// 2. drop single operations (later first)
	for ti := range best.Tasks {
		for oi := len(best.Tasks[ti]) - 1; oi >= 0 && time.Now().Before(deadline) && tries < 400; oi-- {
			cand := cloneCase(best)
			cand.Tasks[ti] = append(cand.Tasks[ti][:oi], cand.Tasks[ti][oi+1:]...)
			// references to expectations shift
			for k := range cand.Tasks[ti] {
				if cand.Tasks[ti][k].Ref > oi+1 {
					cand.Tasks[ti][k].Ref--
				} else if cand.Tasks[ti][k].Ref == oi+1 {
					cand.Tasks[ti][k].Ref = 0
				}
			}
			if fails(cand) {
				best = cand
			}
		}
	}
	// 3. fewer preemptions: shorter recorded prefix (afterwards tasks run without preemption)
	for len(best.Sched.Choices) > 0 && time.Now().Before(deadline) && tries < 600 {
		cand := cloneCase(best)
		cand.Sched.Choices = cand.Sched.Choices[:len(cand.Sched.Choices)*3/4]
		if fails(cand) {
			best = cand
		} else {
			break
		}
	}
	// 4. plain values
	if best.NilRate != 0 {
		cand := cloneCase(best)
		cand.NilRate = 0
		if fails(cand) {
			best = cand
		}
	}
	ops1 := 0
	for _, t := range best.Tasks {
		ops1 += len(t)
	}
	return best, fmt.Sprintf("tasks %d→%d, ops %d→%d, recorded choices %d→%d (%d re-executions)", tasks0, len(best.Tasks), ops0, ops1, ch0, len(best.Sched.Choices), tries), tries
}

// Main is the entry point of the generated driver program.
func Main(all []Registration) {
	if len(os.Args) != 3 {
		fmt.Fprintln(os.Stderr, "usage: msim-driver input.json output.json")
		os.Exit(2)
	}
	b, err := os.ReadFile(os.Args[1])
	if err != nil {
		fmt.Fprintln(os.Stderr, err)
		os.Exit(2)
	}
	var in Input
	if err := json.Unmarshal(b, &in); err != nil {
		fmt.Fprintln(os.Stderr, err)
		os.Exit(2)
	}
	out := Output{Tags: map[string]int{}, KnownSeen: map[string]int{}}
	t0 := time.Now()
	regs := map[string]*Registration{}
	var usable []*Registration
	for i := range all {
		reg := &all[i]
		if err := CheckSupported(reg.IfaceType); err != nil {
			out.Unsupported = append(out.Unsupported, reg.Key()+": "+err.Error())
			continue
		}
		regs[reg.Key()] = reg
		usable = append(usable, reg)
		out.Regs = append(out.Regs, reg.Key())
	}
	write := func() {
		out.WallS = time.Since(t0).Seconds()
		ob, _ := json.Marshal(out)
		if err := os.WriteFile(os.Args[2], ob, 0o644); err != nil {
			fmt.Fprintln(os.Stderr, err)
			os.Exit(2)
		}
	}
	if in.List {
		write()
		return
	}
	if in.Replay != nil {
		cs := cloneCase(in.Replay)
		v, _ := RunCase(regs, cs)
		out.Cases, out.Runs = 1, 1
		if v != nil && v.Clause == "harness" {
			out.Trouble = v.Site + ": " + v.Expected + " " + v.Observed
		} else if v != nil {
			out.Found = &Found{Violation: *v, Case: *cs}
		}
		write()
		return
	}
	known := map[string]bool{}
	for _, k := range in.Known {
		known[k] = true
	}
	keys := map[uint64]bool{}
	skeys := map[uint64]bool{}
	deadline := t0.Add(time.Duration(in.BudgetS) * time.Second)
	for i := 0; i < in.N; i++ {
		if i%64 == 0 && time.Now().After(deadline) {
			out.Tags["budget-ended-early"]++
			break
		}
		idx := in.Shard + i*in.Shards // global case number: independent of the shard count
		if in.Total > 0 && idx >= in.Total {
			break
		}
		r := NewRng(in.Seed ^ (uint64(idx)+1)*0xD6E8FEB86659FD93)
		cs := GenCase(in.Prop, usable, r)
		if cs == nil {
			out.Trouble = "no usable registration for " + in.Prop
			break
		}
		orig := cloneCase(cs)
		v, st := RunCase(regs, cs)
		out.Cases++
		out.Runs++
		out.Steps += st.Steps
		out.Inconcl += st.Inconcl
		out.Tags["style:"+regs[cs.Key].Style]++
		out.Tags["variant:"+regs[cs.Key].Variant]++
		out.Tags["strategy:"+orig.Sched.Strategy]++
		if regs[cs.Key].Src != "" {
			out.Tags["corpus:seeded-random-interface"]++
		} else {
			out.Tags["corpus:fixed-library"]++
		}
		for _, t := range st.Tags {
			out.Tags[t]++
		}
		if st.Blocks > 0 {
			out.Tags["probe:task-blocked-on-lock"]++
		}
		if st.Preemptions > 0 {
			out.Tags["probe:preempted"]++
		}
		cb, _ := json.Marshal(orig.Tasks)
		nontrivial := st.Ops >= 2
		if len(cs.Tasks) > 1 {
			nontrivial = st.SharedMeth && (st.Blocks > 0 || st.Preemptions > 0)
		}
		if nontrivial {
			keys[h64(cs.Key, string(cb), st.SchedKey, fmt.Sprint(cs.Sched.Choices))] = true
		}
		skeys[h64(st.SchedKey, fmt.Sprint(len(cs.Tasks)), fmt.Sprint(cs.Sched.Choices))] = true
		if len(out.Samples) < 2 && i%7 == 3 {
			out.Samples = append(out.Samples, map[string]any{"mock": cs.Key, "tasks": orig.Tasks, "modes": orig.Modes, "strategy": orig.Sched.Strategy, "steps": st.Steps, "choices": short(fmt.Sprint(cs.Sched.Choices), 200)})
		}
		if v == nil {
			continue
		}
		if v.Clause == "harness" {
			out.Trouble = v.Site + ": " + v.Expected + " " + v.Observed
			break
		}
		if known[v.Sig()] {
			out.KnownSeen[v.Sig()]++
			continue
		}
		if in.Focus != "" && !strings.Contains(v.Sig(), in.Focus) {
			continue
		}
		if in.Triage {
			if !known["\x00"+v.Sig()] && len(out.Candidates) < 60 {
				known["\x00"+v.Sig()] = true
				out.Candidates = append(out.Candidates, *v)
			}
			continue
		}
		// candidate: must reproduce from its case data
		again := cloneCase(orig)
		v2, _ := RunCase(regs, again)
		out.Runs++
		if v2 == nil || v2.Sig() != v.Sig() {
			out.Unrepro++
			continue
		}
		min, note, tries := Shrink(regs, cs, v.Sig(), time.Now().Add(60*time.Second))
		out.Runs += tries
		fin := cloneCase(min)
		vf, _ := RunCase(regs, fin)
		if vf == nil || vf.Sig() != v.Sig() {
			fin, vf = cs, v
			note += " (minimised case did not re-fail; original reported)"
		}
		fin.IfaceSrc = regs[fin.Key].Src
		out.Found = &Found{Violation: *vf, Case: *fin, Note: note, CaseIndex: idx}
		break
	}
	for k := range keys {
		out.Keys = append(out.Keys, k)
	}
	for k := range skeys {
		out.SchedKeys = append(out.SchedKeys, k)
	}
	sort.Slice(out.Keys, func(i, j int) bool { return out.Keys[i] < out.Keys[j] })
	sort.Slice(out.SchedKeys, func(i, j int) bool { return out.SchedKeys[i] < out.SchedKeys[j] })
	sort.Strings(out.Unsupported)
	_ = strings.Join
	write()
}
