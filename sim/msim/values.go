// Package msim is engine M: the generated-mock simulator. It drives freshly generated (and
// instrumented) testify- and matryer-style mocks through reflection, under the deterministic
// scheduler of package simsync, and judges the recorded histories against reference models.
package msim

import (
	"context"
	"fmt"
	"reflect"
	"strings"
	"time"
)

// Rng is a splitmix64; every value and choice of a case derives from the case's seeds.
type Rng struct{ s uint64 }

func NewRng(seed uint64) *Rng { return &Rng{s: seed*0x9E3779B97F4A7C15 + 0x5851F42D4C957F2D} }

func (r *Rng) U64() uint64 {
	r.s += 0x9E3779B97F4A7C15
	z := r.s
	z = (z ^ (z >> 30)) * 0xBF58476D1CE4E5B9
	z = (z ^ (z >> 27)) * 0x94D049BB133111EB
	return z ^ (z >> 31)
}
func (r *Rng) Intn(n int) int {
	if n <= 0 {
		return 0
	}
	return int(r.U64() % uint64(n))
}
func (r *Rng) Chance(num, den int) bool { return r.Intn(den) < num }
func (r *Rng) Fork() *Rng               { return NewRng(r.U64()) }

// Omni is the harness type behind every interface-typed value: it implements the method sets
// of all interfaces the corpus uses as parameter or result types, and carries a tag.
type Omni struct{ Tag string }

func (o *Omni) Error() string               { return "omni-error:" + o.Tag }
func (o *Omni) String() string              { return "omni:" + o.Tag }
func (o *Omni) Name() string                { return "omni-name:" + o.Tag }
func (o *Omni) Read(p []byte) (int, error)  { return 0, nil }
func (o *Omni) Write(p []byte) (int, error) { return len(p), nil }
func (o *Omni) Close() error                { return nil }
func (o *Omni) Deadline() (time.Time, bool) { return time.Time{}, false }
func (o *Omni) Done() <-chan struct{}       { return nil }
func (o *Omni) Err() error                  { return nil }
func (o *Omni) Value(key any) any           { return nil }

var _ context.Context = (*Omni)(nil)

// Gen produces values with a unique token per call.
type Gen struct {
	R      *Rng
	Prefix string
	n      int
	// NilRate: chance (out of 16) that a nillable value is nil / a scalar is its zero value.
	NilRate int
	// Base is added to numeric tokens so that they are unique across operations and tasks.
	Base int
}

func (g *Gen) tok() int { g.n++; return g.n }

func (g *Gen) tag() string { return fmt.Sprintf("%s#%d", g.Prefix, g.tok()) }

var omniType = reflect.TypeOf(&Omni{})

// Supported reports whether values of t can be generated.
func Supported(t reflect.Type, depth int) error {
	if depth > 6 {
		return fmt.Errorf("type too deep: %s", t)
	}
	switch t.Kind() {
	case reflect.Bool, reflect.Int, reflect.Int8, reflect.Int16, reflect.Int32, reflect.Int64, reflect.Uint, reflect.Uint8, reflect.Uint16, reflect.Uint32, reflect.Uint64,
		reflect.Float32, reflect.Float64, reflect.String:
		return nil
	case reflect.Slice, reflect.Array, reflect.Ptr, reflect.Chan:
		return Supported(t.Elem(), depth+1)
	case reflect.Map:
		if err := Supported(t.Key(), depth+1); err != nil {
			return err
		}
		return Supported(t.Elem(), depth+1)
	case reflect.Struct:
		for i := 0; i < t.NumField(); i++ {
			if !t.Field(i).IsExported() {
				continue
			}
			if err := Supported(t.Field(i).Type, depth+1); err != nil {
				return err
			}
		}
		return nil
	case reflect.Interface:
		if t.NumMethod() == 0 || omniType.Implements(t) {
			return nil
		}
		return fmt.Errorf("no harness type implements %s", t)
	case reflect.Func:
		for i := 0; i < t.NumIn(); i++ {
			if err := Supported(t.In(i), depth+1); err != nil {
				return err
			}
		}
		for i := 0; i < t.NumOut(); i++ {
			if err := Supported(t.Out(i), depth+1); err != nil {
				return err
			}
		}
		return nil
	}
	return fmt.Errorf("unsupported kind %s (%s)", t.Kind(), t)
}

func nillableKind(k reflect.Kind) bool {
	switch k {
	case reflect.Slice, reflect.Map, reflect.Ptr, reflect.Interface, reflect.Func, reflect.Chan:
		return true
	}
	return false
}

// Value generates a fresh value of type t.
func (g *Gen) Value(t reflect.Type) reflect.Value {
	if nillableKind(t.Kind()) && g.R.Intn(16) < g.NilRate {
		return reflect.Zero(t)
	}
	return g.nonNil(t, 0)
}

func (g *Gen) nonNil(t reflect.Type, depth int) reflect.Value {
	v := reflect.New(t).Elem()
	zero := depth == 0 && g.R.Intn(32) < g.NilRate // occasional zero scalars at top level
	switch t.Kind() {
	case reflect.Bool:
		v.SetBool(g.R.Intn(2) == 0)
	case reflect.Int, reflect.Int16, reflect.Int32, reflect.Int64:
		if !zero {
			v.SetInt(int64(g.Base + 1000 + g.tok()*7 + g.R.Intn(5)))
		}
	case reflect.Int8:
		if !zero {
			v.SetInt(int64(1 + g.tok()%120))
		}
	case reflect.Uint, reflect.Uint16, reflect.Uint32, reflect.Uint64:
		if !zero {
			v.SetUint(uint64(g.Base + 2000 + g.tok()*3))
		}
	case reflect.Uint8:
		if !zero {
			v.SetUint(uint64(1 + g.tok()%250))
		}
	case reflect.Float32, reflect.Float64:
		if !zero {
			v.SetFloat(float64(g.Base+g.tok()) + 0.5)
		}
	case reflect.String:
		if !zero {
			v.SetString(g.tag())
		}
	case reflect.Slice:
		n := g.R.Intn(4) // 0 = empty, non-nil
		s := reflect.MakeSlice(t, n, n)
		for i := 0; i < n; i++ {
			s.Index(i).Set(g.nonNil(t.Elem(), depth+1))
		}
		v.Set(s)
	case reflect.Array:
		for i := 0; i < t.Len(); i++ {
			v.Index(i).Set(g.nonNil(t.Elem(), depth+1))
		}
	case reflect.Map:
		m := reflect.MakeMap(t)
		n := 1 + g.R.Intn(2)
		for i := 0; i < n; i++ {
			m.SetMapIndex(g.nonNil(t.Key(), depth+1), g.nonNil(t.Elem(), depth+1))
		}
		v.Set(m)
	case reflect.Ptr:
		p := reflect.New(t.Elem())
		p.Elem().Set(g.nonNil(t.Elem(), depth+1))
		v.Set(p)
	case reflect.Struct:
		for i := 0; i < t.NumField(); i++ {
			if t.Field(i).IsExported() {
				v.Field(i).Set(g.nonNil(t.Field(i).Type, depth+1))
			}
		}
	case reflect.Interface:
		if t.NumMethod() == 0 {
			switch g.R.Intn(4) {
			case 0:
				v.Set(reflect.ValueOf(90000 + g.Base + g.tok()))
			case 1:
				v.Set(reflect.ValueOf(g.tag()))
			case 2:
				v.Set(reflect.ValueOf(&Omni{Tag: g.tag()}))
			default:
				v.Set(reflect.ValueOf([]string{g.tag()}))
			}
		} else {
			v.Set(reflect.ValueOf(&Omni{Tag: g.tag()}))
		}
	case reflect.Func:
		outs := make([]reflect.Value, t.NumOut())
		for i := range outs {
			outs[i] = g.nonNil(t.Out(i), depth+1)
		}
		v.Set(reflect.MakeFunc(t, func([]reflect.Value) []reflect.Value { return outs }))
	case reflect.Chan:
		v.Set(reflect.MakeChan(reflect.ChanOf(reflect.BothDir, t.Elem()), 1).Convert(t))
	default:
		panic("msim: unsupported type " + t.String())
	}
	return v
}

// FP is the fingerprint of a value: deep for values, identity for pointers, maps and chans,
// behaviour (the tagged results) for funcs. Two values have equal fingerprints iff the mock
// handed the same value through.
// ID is the identity of a value where Go values have one beyond their content: the address a
// pointer, map or channel refers to, the backing array (and length) of a non-empty slice. "" for
// everything else (and for interface values: the identity of what they hold).
func ID(v reflect.Value) string {
	for v.IsValid() && v.Kind() == reflect.Interface {
		if v.IsNil() {
			return ""
		}
		v = v.Elem()
	}
	if !v.IsValid() {
		return ""
	}
	switch v.Kind() {
	case reflect.Ptr, reflect.Map, reflect.Chan, reflect.UnsafePointer:
		if v.IsNil() {
			return ""
		}
		return fmt.Sprintf("%s@%x", v.Kind(), v.Pointer())
	case reflect.Slice:
		if v.Len() == 0 {
			return ""
		}
		return fmt.Sprintf("slice@%x+%d", v.Pointer(), v.Len())
	}
	return ""
}

// IDs lists the identities of the values that have one (position: identity).
func IDs(vs []reflect.Value) []string {
	out := make([]string, len(vs))
	for i := range vs {
		out[i] = ID(vs[i])
	}
	return out
}

func FP(v reflect.Value) string {
	if !v.IsValid() {
		return "invalid"
	}
	switch v.Kind() {
	case reflect.Bool:
		return fmt.Sprintf("b:%v", v.Bool())
	case reflect.Int, reflect.Int8, reflect.Int16, reflect.Int32, reflect.Int64:
		return fmt.Sprintf("i:%d", v.Int())
	case reflect.Uint, reflect.Uint8, reflect.Uint16, reflect.Uint32, reflect.Uint64:
		return fmt.Sprintf("u:%d", v.Uint())
	case reflect.Float32, reflect.Float64:
		return fmt.Sprintf("f:%v", v.Float())
	case reflect.String:
		return fmt.Sprintf("s:%q", v.String())
	case reflect.Slice:
		if v.IsNil() {
			return "slice:nil"
		}
		fallthrough
	case reflect.Array:
		parts := make([]string, v.Len())
		for i := range parts {
			parts[i] = FP(v.Index(i))
		}
		return "[" + strings.Join(parts, ",") + "]"
	case reflect.Map:
		if v.IsNil() {
			return "map:nil"
		}
		return fmt.Sprintf("map@%x", v.Pointer())
	case reflect.Ptr:
		if v.IsNil() {
			return "ptr:nil"
		}
		if o, ok := v.Interface().(*Omni); ok {
			return fmt.Sprintf("omni@%p(%s)", o, o.Tag)
		}
		return fmt.Sprintf("ptr@%x", v.Pointer())
	case reflect.Chan:
		if v.IsNil() {
			return "chan:nil"
		}
		return fmt.Sprintf("chan@%x", v.Pointer())
	case reflect.Struct:
		parts := make([]string, 0, v.NumField())
		for i := 0; i < v.NumField(); i++ {
			if v.Type().Field(i).IsExported() {
				parts = append(parts, FP(v.Field(i)))
			}
		}
		return "{" + strings.Join(parts, ",") + "}"
	case reflect.Interface:
		if v.IsNil() {
			return "iface:nil"
		}
		return "iface(" + FP(v.Elem()) + ")"
	case reflect.Func:
		if v.IsNil() {
			return "func:nil"
		}
		t := v.Type()
		if t.NumOut() == 0 {
			return "func:nonnil"
		}
		in := make([]reflect.Value, t.NumIn())
		for i := range in {
			in[i] = reflect.Zero(t.In(i))
		}
		var outs []reflect.Value
		if t.IsVariadic() {
			outs = v.CallSlice(in)
		} else {
			outs = v.Call(in)
		}
		parts := make([]string, len(outs))
		for i := range outs {
			parts[i] = FP(outs[i])
		}
		return "func→(" + strings.Join(parts, ",") + ")"
	}
	return "?" + v.Kind().String()
}

// FPVariadic fingerprints the elements passed for a variadic parameter (nil and empty are the
// same thing for a variadic list).
func FPVariadic(elems []reflect.Value) string {
	parts := make([]string, len(elems))
	for i := range elems {
		parts[i] = FP(elems[i])
	}
	return "…[" + strings.Join(parts, ",") + "]"
}

func FPVariadicSlice(s reflect.Value) string {
	n := 0
	if s.IsValid() && s.Kind() == reflect.Slice {
		n = s.Len()
	}
	elems := make([]reflect.Value, n)
	for i := range elems {
		elems[i] = s.Index(i)
	}
	return FPVariadic(elems)
}

// Describe renders a value for reports (no addresses).
func Describe(v reflect.Value) string {
	s := FP(v)
	// strip addresses so that reports replay textually
	var b strings.Builder
	for i := 0; i < len(s); i++ {
		if s[i] == '@' {
			b.WriteByte('@')
			j := i + 1
			for j < len(s) && (s[j] == 'x' || (s[j] >= '0' && s[j] <= '9') || (s[j] >= 'a' && s[j] <= 'f')) {
				j++
			}
			i = j - 1
			continue
		}
		b.WriteByte(s[i])
	}
	return b.String()
}
