package msim

import "fmt"

// RecT is the recording TestingT handed to generated testify constructors.
type RecT struct {
	Errors   []string
	FailNows int
	Cleanups []func()
	Logs     int
	failed   bool
}

type failNowSentinel struct{}

func (t *RecT) Logf(format string, args ...interface{}) { t.Logs++ }
func (t *RecT) Errorf(format string, args ...interface{}) {
	t.Errors = append(t.Errors, fmt.Sprintf(format, args...))
}

// FailNow records and unwinds the calling task's current operation. testing.T uses
// runtime.Goexit; a sentinel panic unwinds the same deferred calls and lets the driver go on
// with the task's next operation (generated code contains no recover).
func (t *RecT) FailNow()         { t.FailNows++; panic(failNowSentinel{}) }
func (t *RecT) Cleanup(f func()) { t.Cleanups = append(t.Cleanups, f) }
func (t *RecT) Helper()          {}
func (t *RecT) Name() string     { return "msim" }

// Failed and Fail make RecT look like *testing.T to code that asks (through an interface
// assertion) whether the test has already failed.
func (t *RecT) Failed() bool { return len(t.Errors) > 0 || t.FailNows > 0 || t.failed }
func (t *RecT) Fail()        { t.failed = true }
