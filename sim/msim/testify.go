package msim

// placeholder until the testify driver lands
func RunTestify(reg *Registration, cs *Case) (*Violation, RunStats) { return nil, RunStats{} }

func genTestifyCase(prop string, reg *Registration, cs *Case, ms []methodInfo, r *Rng) {}
