package msim

import (
	"fmt"
	"reflect"
	"sort"
	"strings"

	"github.com/stretchr/testify/mock"

	"verif/sim/msim/simsync"
)

// ---------------------------------------------------------------------------------------------
// testify-style mocks: C03 (routing of arguments, callbacks and returns; sequential histories)
// and the testify half of C05 (several tasks registering expectations and calling).

// CFP is the content fingerprint used to predict testify's argument matching
// (ObjectsAreEqual = reflect.DeepEqual): deep through pointers, no identities.
func CFP(v reflect.Value) string {
	if !v.IsValid() {
		return "invalid"
	}
	switch v.Kind() {
	case reflect.Ptr:
		if v.IsNil() {
			return "ptr:nil"
		}
		return "&" + CFP(v.Elem())
	case reflect.Interface:
		if v.IsNil() {
			return "iface:nil"
		}
		return "iface(" + v.Elem().Type().String() + ":" + CFP(v.Elem()) + ")"
	case reflect.Map:
		if v.IsNil() {
			return "map:nil"
		}
		var parts []string
		for _, k := range v.MapKeys() {
			parts = append(parts, CFP(k)+"=>"+CFP(v.MapIndex(k)))
		}
		sort.Strings(parts)
		return "map{" + strings.Join(parts, ",") + "}"
	case reflect.Slice:
		if v.IsNil() {
			return "slice:nil"
		}
		fallthrough
	case reflect.Array:
		parts := make([]string, v.Len())
		for i := range parts {
			parts[i] = CFP(v.Index(i))
		}
		return "[" + strings.Join(parts, ",") + "]"
	case reflect.Struct:
		var parts []string
		for i := 0; i < v.NumField(); i++ {
			parts = append(parts, CFP(v.Field(i)))
		}
		return "{" + strings.Join(parts, ",") + "}"
	case reflect.Chan, reflect.Func:
		return "identity-only"
	}
	return FP(v)
}

// identityOnly: values of t cannot be re-created with equal content (a channel or a func anywhere
// inside compares by identity under testify's ObjectsAreEqual); such arguments are registered with
// mock.Anything.
func identityOnly(t reflect.Type) bool { return identityOnlyD(t, 0) }

func identityOnlyD(t reflect.Type, depth int) bool {
	if depth > 8 {
		return true
	}
	switch t.Kind() {
	case reflect.Chan, reflect.Func:
		return true
	case reflect.Slice, reflect.Array, reflect.Ptr:
		return identityOnlyD(t.Elem(), depth+1)
	case reflect.Map:
		return identityOnlyD(t.Key(), depth+1) || identityOnlyD(t.Elem(), depth+1)
	case reflect.Struct:
		for i := 0; i < t.NumField(); i++ {
			if identityOnlyD(t.Field(i).Type, depth+1) {
				return true
			}
		}
	}
	return false
}

const anyMatcher = "\x00ANY"

type cbInv struct {
	task   int
	exp    *expState
	kind   string // run | rar | prov<i>
	argFPs []string
	argIDs []string
	res    []reflect.Value
}

type expState struct {
	idx      int
	m        *methodInfo
	matchers []string // per argument handed to mock.Called: anyMatcher or a CFP
	style    string
	bound    int
	optional bool
	count    int
	retVals  []reflect.Value // configured return values (nil entries = provider)
	provider []bool
	task     int
}

func (e *expState) live() bool { return e.bound == 0 || e.count < e.bound }

type testifyRun struct {
	reg     *Registration
	cs      *Case
	t       *RecT
	mv      reflect.Value
	methods []methodInfo
	exps    []*expState
	byOp    map[[2]int]*expState // (task, op index) → expectation
	cbs     []cbInv
	viol    *Violation
	unroll  bool
	resGen  *Gen
	calls   int      // completed matched calls (recorded by testify)
	callLog []string // method + content fingerprints of the arguments handed to mock.Called, per matched call
	tags    map[string]bool
	cleaned bool
	// ambiguous: the history reached a point where testify's Anything-matches-a-missing-argument
	// rule decides the outcome; from there on nothing is judged
	ambiguous bool
	// shadow: a second instance of the same mock type, configured alongside (never judged itself)
	shadow reflect.Value
}

// shadowExpect registers an unrelated expectation for the same method on the second instance.
func (r *testifyRun) shadowExpect(m *methodInfo, op Op, task, oi int) {
	g := &Gen{R: NewRng(op.Seed ^ 0x51ad0), Prefix: fmt.Sprintf("sh%d.%d", task, oi), NilRate: r.cs.NilRate, Base: 90000000 + (task*64+oi+1)*1000}
	args := genArgs(m, g, op.NArgs-1)
	called := r.calledArgs(m, args)
	safeCall(func() {
		exp := r.shadow.MethodByName("EXPECT").Call(nil)[0]
		ins := make([]reflect.Value, len(called))
		for i, v := range called {
			switch {
			case identityOnly(v.Type()):
				ins[i] = reflect.ValueOf(mock.Anything)
			case !v.IsValid() || (v.Kind() == reflect.Interface && v.IsNil()):
				ins[i] = reflect.Zero(reflect.TypeOf((*interface{})(nil)).Elem())
			default:
				ins[i] = v
			}
		}
		callV := exp.MethodByName(m.Name).Call(ins)[0]
		if n := m.Type.NumOut(); n > 0 {
			outs := make([]reflect.Value, n)
			for i := range outs {
				outs[i] = g.Value(m.Type.Out(i))
			}
			callV.MethodByName("Return").Call(outs)
		}
	})
}

func (r *testifyRun) fail(v *Violation) {
	if r.viol == nil {
		r.viol = v
	}
}

// calledArgs lists the arguments the generated method hands to mock.Called, per the statement:
// unrolled element-wise, or the variadic slice as a single trailing argument (absent when empty).
func (r *testifyRun) calledArgs(m *methodInfo, a argSet) []reflect.Value {
	if !m.Variadic {
		return a.Vals
	}
	n := m.Type.NumIn() - 1
	fixed := append([]reflect.Value(nil), a.Vals[:n]...)
	elems := a.Vals[n:]
	if r.unroll {
		return append(fixed, elems...)
	}
	if len(elems) == 0 {
		return fixed
	}
	sl := reflect.MakeSlice(m.Type.In(n), len(elems), len(elems))
	for i, e := range elems {
		sl.Index(i).Set(e)
	}
	return append(fixed, sl)
}

func (r *testifyRun) trig(m *methodInfo, style string) string {
	return fmt.Sprintf("style=%s,params=%d,results=%d,variadic=%v,unroll=%v", style, m.Type.NumIn(), m.Type.NumOut(), m.Variadic, r.unroll)
}

func (r *testifyRun) recorder(e *expState, kind string, ft reflect.Type, outs func() []reflect.Value) reflect.Value {
	return reflect.MakeFunc(ft, func(in []reflect.Value) []reflect.Value {
		inv := cbInv{task: simsync.CurTask(), exp: e, kind: kind, argFPs: fpsOfReceived(e.m, in), argIDs: IDs(in)}
		simsync.Yield()
		if outs != nil {
			inv.res = outs()
		}
		r.cbs = append(r.cbs, inv)
		return inv.res
	})
}

// untypedArg boxes v as an interface{} argument the way a caller writing Return(nil, err) does:
// a nil pointer, slice, map, chan, func or interface becomes the untyped nil.
func untypedArg(v reflect.Value) reflect.Value {
	iv := reflect.New(reflect.TypeOf((*interface{})(nil)).Elem()).Elem()
	switch v.Kind() {
	case reflect.Interface, reflect.Ptr, reflect.Slice, reflect.Map, reflect.Chan, reflect.Func:
		if v.IsNil() {
			return iv
		}
	}
	iv.Set(v)
	return iv
}

func (r *testifyRun) register(task, oi int, op Op) {
	m := findMethod(r.methods, op.Method)
	if m == nil {
		return
	}
	site := r.reg.Variant
	if r.shadow.IsValid() && op.Seed&2 != 0 {
		r.shadowExpect(m, op, task, oi) // before the judged instance's registration
	} else if r.shadow.IsValid() && op.Seed&4 != 0 {
		defer r.shadowExpect(m, op, task, oi) // after it
	}
	g := &Gen{R: NewRng(op.Seed), Prefix: fmt.Sprintf("a%d.%d", task, oi), NilRate: r.cs.NilRate, Base: (task*64 + oi + 1) * 100000}
	args := genArgs(m, g, op.NArgs-1)
	called := r.calledArgs(m, args)
	e := &expState{idx: len(r.exps), m: m, style: op.Style, task: task}
	matchVals := make([]reflect.Value, len(called))
	for i, v := range called {
		anyM := op.Match == "anything" || identityOnly(v.Type()) || (op.Match == "mixed" && (int(op.Seed>>uint(i%16))&1 == 1))
		if anyM {
			e.matchers = append(e.matchers, anyMatcher)
			matchVals[i] = reflect.ValueOf(mock.Anything)
		} else {
			e.matchers = append(e.matchers, CFP(v))
			matchVals[i] = v
		}
	}
	var callV reflect.Value
	pv, panicked := safeCall(func() {
		exp := r.mv.MethodByName("EXPECT").Call(nil)[0]
		ins := make([]reflect.Value, len(matchVals))
		for i, v := range matchVals {
			if !v.IsValid() || (v.Kind() == reflect.Interface && v.IsNil()) {
				ins[i] = reflect.Zero(reflect.TypeOf((*interface{})(nil)).Elem())
			} else {
				ins[i] = v
			}
		}
		callV = exp.MethodByName(m.Name).Call(ins)[0]
	})
	if panicked {
		r.fail(&Violation{"expectation-registration-panics", site, r.trig(m, op.Style), "EXPECT()." + m.Name + "(…) registers an expectation", short(fmt.Sprint(pv), 300)})
		return
	}
	nOut := m.Type.NumOut()
	ins := make([]reflect.Type, m.Type.NumIn())
	for i := range ins {
		ins[i] = m.Type.In(i)
	}
	freshOuts := func() []reflect.Value {
		out := make([]reflect.Value, nOut)
		for i := range out {
			out[i] = r.resGen.Value(m.Type.Out(i))
		}
		return out
	}
	e.provider = make([]bool, nOut)
	style := op.Style
	if nOut == 0 && (style == "return" || style == "providers" || style == "none" || style == "untyped-return") {
		style = "none" // nothing to configure
	}
	if nOut == 0 && style == "run+return" {
		style = "run"
	}
	e.style = style
	pv, panicked = safeCall(func() {
		switch style {
		case "return", "run+return":
			if style == "run+return" {
				callV.MethodByName("Run").Call([]reflect.Value{r.recorder(e, "run", reflect.FuncOf(ins, nil, m.Variadic), nil)})
			}
			e.retVals = freshOuts()
			callV.MethodByName("Return").Call(e.retVals)
		case "run":
			callV.MethodByName("Run").Call([]reflect.Value{r.recorder(e, "run", reflect.FuncOf(ins, nil, m.Variadic), nil)})
		case "runandreturn":
			outs := make([]reflect.Type, nOut)
			for i := range outs {
				outs[i] = m.Type.Out(i)
			}
			kind := "rar"
			if nOut == 0 {
				kind = "run"
			}
			callV.MethodByName("RunAndReturn").Call([]reflect.Value{r.recorder(e, kind, reflect.FuncOf(ins, outs, m.Variadic), freshOuts)})
		case "providers":
			// untyped Return: a function provider for some results, plain values for the others
			vals := make([]reflect.Value, nOut)
			e.retVals = make([]reflect.Value, nOut)
			anyProv := false
			for i := 0; i < nOut; i++ {
				if (op.Seed>>(uint(i)+20))&1 == 1 || (i == nOut-1 && !anyProv) {
					i := i
					e.provider[i] = true
					anyProv = true
					vals[i] = r.recorder(e, fmt.Sprintf("prov%d", i), reflect.FuncOf(ins, []reflect.Type{m.Type.Out(i)}, m.Variadic), func() []reflect.Value {
						return []reflect.Value{r.resGen.Value(m.Type.Out(i))}
					})
				} else {
					v := r.resGen.Value(m.Type.Out(i))
					e.retVals[i] = v
					vals[i] = untypedArg(v)
				}
			}
			callV.Elem().FieldByName("Call").MethodByName("Return").Call(vals)
		case "untyped-return":
			// the classic testify form On(...).Return(v0, v1, …): values travel as interface{},
			// a nil of any nillable type as the untyped nil
			e.retVals = freshOuts()
			vals := make([]reflect.Value, nOut)
			for i, v := range e.retVals {
				vals[i] = untypedArg(v)
			}
			callV.Elem().FieldByName("Call").MethodByName("Return").Call(vals)
		case "none":
		}
		switch op.Times {
		case "once":
			callV.MethodByName("Once").Call(nil)
			e.bound = 1
		case "twice":
			callV.MethodByName("Twice").Call(nil)
			e.bound = 2
		case "times3":
			callV.MethodByName("Times").Call([]reflect.Value{reflect.ValueOf(3)})
			e.bound = 3
		case "maybe":
			callV.MethodByName("Maybe").Call(nil)
			e.optional = true
		}
	})
	if panicked {
		r.fail(&Violation{"expectation-setup-panics", site, r.trig(m, style), "the typed " + style + " set-up is accepted", short(fmt.Sprint(pv), 300)})
		return
	}
	r.exps = append(r.exps, e)
	r.byOp[[2]int{task, oi}] = e
}

func (r *testifyRun) match(m *methodInfo, called []reflect.Value) *expState {
	cf := make([]string, len(called))
	for i, v := range called {
		cf[i] = CFP(v)
	}
	var strict, lenient *expState
	for _, e := range r.exps {
		if e.m.Name != m.Name || !e.live() {
			continue
		}
		ok := len(e.matchers) == len(cf)
		for i := 0; ok && i < len(cf); i++ {
			if e.matchers[i] != anyMatcher && e.matchers[i] != cf[i] {
				ok = false
			}
		}
		if ok && strict == nil {
			strict = e
		}
		// testify lets mock.Anything match a *missing* argument; the statement is silent on
		// that, so a call whose outcome depends on it is not judged (see ambiguous)
		lok := len(e.matchers) >= len(cf)
		for i := 0; lok && i < len(e.matchers); i++ {
			switch {
			case i >= len(cf):
				lok = e.matchers[i] == anyMatcher
			case e.matchers[i] != anyMatcher && e.matchers[i] != cf[i]:
				lok = false
			}
		}
		if lok && lenient == nil {
			lenient = e
		}
	}
	if strict != lenient {
		r.ambiguous = true
	}
	return strict
}

// invoke calls the mocked method. Under unroll-variadic: true the generated method hands testify
// a list of its own, so a caller may spread a buffer (f(xs...)) and re-use it afterwards: every
// other such call is made that way and the buffer is overwritten once the call is over. (With
// unroll-variadic false/unset the slice itself is the recorded argument, by contract.)
func (r *testifyRun) invoke(m *methodInfo, args argSet, seed uint64) []reflect.Value {
	fn := r.mv.MethodByName(m.Name)
	if !m.Variadic || !r.unroll || args.NVar == 0 || seed&1 == 0 {
		return fn.Call(args.Vals)
	}
	n := m.Type.NumIn()
	st := m.Type.In(n - 1)
	buf := reflect.MakeSlice(st, args.NVar, args.NVar)
	for i := 0; i < args.NVar; i++ {
		buf.Index(i).Set(args.Vals[n-1+i])
	}
	r.tags["fault:variadic-buffer-reused-by-caller"] = true
	defer func() {
		g := &Gen{R: NewRng(seed ^ 0xb0ff), Prefix: "reused", Base: 77000000}
		for i := 0; i < args.NVar; i++ {
			buf.Index(i).Set(g.Value(st.Elem()))
		}
	}()
	return fn.CallSlice(append(append([]reflect.Value(nil), args.Vals[:n-1]...), buf))
}

func (r *testifyRun) call(task, oi int, op Op, ops []Op) {
	m := findMethod(r.methods, op.Method)
	if m == nil {
		return
	}
	site := r.reg.Variant
	seed, prefix, nargs, base := op.Seed, fmt.Sprintf("c%d.%d", task, oi), op.NArgs, (task*64+oi+1)*100000+50000
	if op.Ref > 0 && op.Ref <= len(ops) && ops[op.Ref-1].Kind == "expect" && ops[op.Ref-1].Method == op.Method {
		// the arguments the referenced expectation was registered for (regenerated: equal content,
		// fresh pointers)
		seed, prefix, nargs, base = ops[op.Ref-1].Seed, fmt.Sprintf("a%d.%d", task, op.Ref-1), ops[op.Ref-1].NArgs, (task*64+op.Ref)*100000
	}
	if op.Ref < 0 && -op.Ref <= len(r.cs.Setup) {
		nargs = r.cs.Setup[-op.Ref-1].NArgs // same number of variadic elements as the shared expectation
	}
	g := &Gen{R: NewRng(seed), Prefix: prefix, NilRate: r.cs.NilRate, Base: base}
	args := genArgs(m, g, nargs-1)
	if r.ambiguous {
		return
	}
	e := r.match(m, r.calledArgs(m, args))
	if r.ambiguous {
		r.tags["probe:not-judged-anything-vs-missing-argument"] = true
		safeCall(func() { r.invoke(m, args, seed) })
		return
	}
	errs0, fails0, cbs0 := len(r.t.Errors), r.t.FailNows, len(r.cbs)
	var outs []reflect.Value
	pv, panicked := safeCall(func() { outs = r.invoke(m, args, seed) })
	what := m.Name + args.Descr
	var cbs []cbInv // callbacks run by this task during this operation (other tasks' interleave)
	for _, cb := range r.cbs[cbs0:] {
		if cb.task == task || cb.task < 0 {
			cbs = append(cbs, cb)
		}
	}
	if e == nil {
		r.tags["probe:unmatched-call"] = true
		trig := r.trig(m, "no-expectation")
		_, isFail := pv.(failNowSentinel)
		if !panicked || !isFail || r.t.FailNows == fails0 || len(r.t.Errors) == errs0 {
			obs := "returned normally"
			if panicked && !isFail {
				obs = "panic: " + short(fmt.Sprint(pv), 300)
			}
			r.fail(&Violation{"unmatched-call-does-not-fail-the-test", site, trig, "a call with no matching expectation fails the test (Errorf + FailNow) instead of returning", what + ": " + obs})
		}
		return
	}
	e.count++
	trig := r.trig(m, e.style)
	if _, isFail := pv.(failNowSentinel); panicked && isFail {
		r.fail(&Violation{"matching-call-fails-the-test", site, trig, "a call matching expectation #" + fmt.Sprint(e.idx) + " returns", what + " → FailNow: " + short(strings.Join(r.t.Errors[errs0:], " / "), 2400)})
		return
	}
	nOut := m.Type.NumOut()
	if (e.style == "none" || e.style == "run") && nOut > 0 {
		if !panicked {
			r.fail(&Violation{"no-return-configured-no-panic", site, trig, "a panic naming " + m.Name, what + " returned normally"})
		} else if msg := fmt.Sprint(pv); !strings.Contains(msg, m.Name) {
			r.fail(&Violation{"no-return-panic-does-not-name-method", site, trig, "a panic naming " + m.Name, short(msg, 300)})
		}
		r.calls++
		r.callLog = append(r.callLog, r.logEntry(m, args))
		return
	}
	if panicked {
		r.fail(&Violation{"matched-call-panics", site, trig + "," + nilTrigger(args), what + " returns", "panic: " + short(fmt.Sprint(pv), 400)})
		return
	}
	r.calls++
	r.callLog = append(r.callLog, r.logEntry(m, args))
	// callbacks: each configured one exactly once, with exactly the call's arguments
	want := map[string]bool{}
	switch e.style {
	case "run", "run+return":
		want["run"] = true
	case "runandreturn":
		if nOut == 0 {
			want["run"] = true
		} else {
			want["rar"] = true
		}
	case "providers":
		for i, p := range e.provider {
			if p {
				want[fmt.Sprintf("prov%d", i)] = true
			}
		}
	}
	seen := map[string]int{}
	for _, cb := range cbs {
		if cb.exp != e {
			r.fail(&Violation{"callback-of-other-expectation-invoked", site, trig, "only the matching expectation's callbacks run", fmt.Sprintf("%s invoked a %s callback of expectation #%d", what, cb.kind, cb.exp.idx)})
			return
		}
		seen[cb.kind]++
		if !eqStrs(cb.argFPs, args.FPs) {
			r.fail(&Violation{"callback-arguments-differ", site, trig + "," + cb.kind, "the callback receives exactly the call's arguments: " + short(tupleOf(args.FPs), 300), short(tupleOf(cb.argFPs), 300)})
			return
		}
		// the fixed parameters arrive as the very values that were passed (the variadic list is
		// rebuilt by reflection and by the unroll wrappers, so it has no identity to compare)
		nFixed := m.Type.NumIn()
		if m.Variadic {
			nFixed--
		}
		for j := 0; j < nFixed && j < len(cb.argIDs); j++ {
			if want := ID(args.Vals[j]); want != "" && cb.argIDs[j] != want {
				r.fail(&Violation{"callback-arguments-are-copies", site, trig + "," + cb.kind, "the callback receives exactly the call's arguments (the very pointers, maps and slices)", fmt.Sprintf("parameter %d: passed %s, received %s", j, want, cb.argIDs[j])})
				return
			}
		}
	}
	for k := range want {
		if seen[k] != 1 {
			r.fail(&Violation{"callback-invocation-count", site, trig + "," + strings.TrimRight(k, "0123456789"), "each configured callback is invoked exactly once per call", fmt.Sprintf("%s: %s invoked %d times", what, k, seen[k])})
			return
		}
	}
	for k, n := range seen {
		if !want[k] || n != 1 {
			r.fail(&Violation{"callback-invocation-count", site, trig + "," + strings.TrimRight(k, "0123456789"), "each configured callback is invoked exactly once per call", fmt.Sprintf("%s: %s invoked %d times", what, k, n)})
			return
		}
	}
	// results
	exp := make([]string, nOut)
	expID := make([]string, nOut)
	for i := 0; i < nOut; i++ {
		switch {
		case e.style == "runandreturn":
			for _, cb := range cbs {
				if cb.kind == "rar" {
					exp[i], expID[i] = FP(cb.res[i]), ID(cb.res[i])
				}
			}
		case e.style == "providers" && e.provider[i]:
			for _, cb := range cbs {
				if cb.kind == fmt.Sprintf("prov%d", i) {
					exp[i], expID[i] = FP(cb.res[0]), ID(cb.res[0])
				}
			}
		default:
			exp[i], expID[i] = FP(e.retVals[i]), ID(e.retVals[i])
		}
	}
	if got := fpsOf(outs); !eqStrs(got, exp) {
		r.fail(&Violation{"results-differ", site, trig, "exactly the configured values / what the function returned: " + short(tupleOf(exp), 300), what + " returned " + short(tupleOf(got), 300)})
	} else if got := IDs(outs); !eqStrs(got, expID) {
		r.fail(&Violation{"results-are-copies", site, trig, "exactly the values given to Return / returned by the function (the very slices, maps and pointers): " + short(tupleOf(expID), 300), what + " returned " + short(tupleOf(got), 300)})
	}
}

// cfpDyn fingerprints the dynamic value (an interface-typed value and the interface{} slot
// testify stores it in must compare equal).
func cfpDyn(v reflect.Value) string {
	for v.IsValid() && v.Kind() == reflect.Interface {
		if v.IsNil() {
			return "nil"
		}
		v = v.Elem()
	}
	return CFP(v)
}

func (r *testifyRun) logEntry(m *methodInfo, a argSet) string {
	parts := []string{m.Name}
	for _, v := range r.calledArgs(m, a) {
		parts = append(parts, cfpDyn(v))
	}
	return strings.Join(parts, " ; ")
}

func nilTrigger(a argSet) string {
	for _, v := range a.Vals {
		if v.Kind() == reflect.Interface && v.IsNil() {
			return "nil-interface-argument"
		}
	}
	return "no-nil-interface-argument"
}

func (r *testifyRun) cleanup() {
	if r.cleaned || r.ambiguous {
		return
	}
	r.cleaned = true
	site := r.reg.Variant
	errs0 := len(r.t.Errors)
	pv, panicked := safeCall(func() {
		for i := len(r.t.Cleanups) - 1; i >= 0; i-- {
			r.t.Cleanups[i]()
		}
	})
	if _, isFail := pv.(failNowSentinel); panicked && !isFail {
		r.fail(&Violation{"cleanup-panics", site, "", "cleanup reports, it does not panic", short(fmt.Sprint(pv), 300)})
		return
	}
	if len(r.t.Cleanups) == 0 {
		r.fail(&Violation{"constructor-registers-no-cleanup", site, "", "the constructor registers a cleanup that asserts expectations", "no cleanup registered"})
		return
	}
	// judged only where testify's own bookkeeping cannot blur it: no two expectations of a
	// method can match a common call
	for i, a := range r.exps {
		for _, b := range r.exps[i+1:] {
			if a.m.Name != b.m.Name {
				continue
			}
			short, long := a.matchers, b.matchers
			if len(short) > len(long) {
				short, long = long, short
			}
			overlap := true
			for k := range short {
				if short[k] != anyMatcher && long[k] != anyMatcher && short[k] != long[k] {
					overlap = false
				}
			}
			// testify lets Anything match a missing argument: a longer expectation whose extra
			// matchers are all Anything can be "met" by a call made for the shorter one
			for k := len(short); k < len(long); k++ {
				if long[k] != anyMatcher {
					overlap = false
				}
			}
			if overlap {
				r.tags["probe:cleanup-not-judged-overlapping-expectations"] = true
				return
			}
		}
	}
	unmet := 0
	for _, e := range r.exps {
		if !e.optional && (e.count == 0 || (e.bound > 0 && e.count < e.bound)) {
			unmet++
		}
	}
	reported := len(r.t.Errors) > errs0
	r.tags["probe:cleanup-judged"] = true
	if unmet > 0 && !reported {
		r.fail(&Violation{"unmet-expectation-not-reported", site, fmt.Sprintf("unroll=%v", r.unroll), "unmet expectations are reported when the test's cleanup runs", fmt.Sprintf("%d unmet, nothing reported", unmet)})
	}
	if unmet == 0 && reported {
		r.fail(&Violation{"cleanup-reports-met-expectations", site, fmt.Sprintf("unroll=%v", r.unroll), "nothing to report: every expectation was met", short(strings.Join(r.t.Errors[errs0:], " / "), 2400)})
	}
}

// RunTestify executes one case on a fresh testify mock and judges it.
func RunTestify(reg *Registration, cs *Case) (*Violation, RunStats) {
	st := RunStats{Tasks: len(cs.Tasks)}
	r := &testifyRun{reg: reg, cs: cs, t: &RecT{}, methods: ifaceMethods(reg.IfaceType), byOp: map[[2]int]*expState{}, unroll: reg.Opts["unroll-variadic"], tags: map[string]bool{}}
	r.resGen = &Gen{R: NewRng(cs.Seed ^ 0xbeef), Prefix: "res", NilRate: cs.NilRate}
	mockObj := reg.New(r.t)
	r.mv = reflect.ValueOf(mockObj)
	if cs.Seed&1 == 1 {
		// two instances of one mock type are independent of each other
		r.shadow = reflect.ValueOf(reg.New(&RecT{}))
		r.tags["fault:second-instance-of-the-same-mock"] = true
	}
	for oi, op := range cs.Setup {
		if op.Kind == "expect" {
			r.register(-1, oi, op)
		}
	}
	if r.viol != nil {
		return r.viol, st
	}
	sim := simsync.New(cs.Sched)
	touched := map[string]map[int]bool{}
	for ti, ops := range cs.Tasks {
		ti, ops := ti, ops
		st.Ops += len(ops)
		for _, op := range ops {
			if touched[op.Method] == nil {
				touched[op.Method] = map[int]bool{}
			}
			touched[op.Method][ti] = true
		}
		sim.Go(fmt.Sprintf("task%d", ti), func() {
			for oi, op := range ops {
				switch op.Kind {
				case "expect":
					r.register(ti, oi, op)
				case "call":
					r.call(ti, oi, op, ops)
				case "cleanup":
					r.cleanup()
				}
			}
		})
	}
	for m, ts := range touched {
		if m != "" && len(ts) >= 2 {
			st.SharedMeth = true
		}
	}
	sim.Run()
	st.Steps, st.Preemptions, st.Blocks = sim.Steps, sim.Preemptions, sim.Blocks
	st.SchedKey = fmt.Sprint(sim.Choices)
	cs.Sched.Choices = sim.Choices
	if sim.ForeignCalls > 0 && len(cs.Tasks) > 1 {
		r.tags["probe:testify-calls-modelled-as-critical-sections"] = true
	}
	for t := range r.tags {
		st.Tags = append(st.Tags, t)
	}
	sort.Strings(st.Tags)
	site := reg.Variant
	switch {
	case sim.Fatal != "":
		return &Violation{"runtime-fatal", site, sim.Fatal, "no fatal error", sim.Fatal}, st
	case len(sim.Races) > 0:
		ra := sim.Races[0]
		return &Violation{"data-race", site, ra.Loc, "the generated code adds no unsynchronised shared state on top of testify's", fmt.Sprintf("%s: task %d at %s (write=%v) and task %d at %s (write=%v) are unordered", ra.Loc, ra.TaskA, ra.SiteA, ra.WriteA, ra.TaskB, ra.SiteB, ra.WriteB)}, st
	case sim.Deadlock:
		return &Violation{"deadlock", site, "", "every operation finishes", "tasks blocked with nothing runnable"}, st
	case sim.Stalled:
		return &Violation{"no-progress-within-step-bound", site, "", "all tasks finish within the step bound", "step cap reached"}, st
	}
	if r.viol != nil {
		return r.viol, st
	}
	if r.ambiguous {
		return nil, st
	}
	// testify's own record of calls equals the matched calls that completed
	if f := r.mv.Elem().FieldByName("Mock"); f.IsValid() {
		calls := f.FieldByName("Calls")
		if n := calls.Len(); n != r.calls {
			return &Violation{"testify-call-record-count", site, "", fmt.Sprintf("%d calls recorded by testify", r.calls), fmt.Sprint(n)}, st
		}
		// each recorded call holds the arguments of exactly one actual call (and keeps them)
		var got []string
		for i := 0; i < calls.Len(); i++ {
			c := calls.Index(i)
			parts := []string{c.FieldByName("Method").String()}
			args := c.FieldByName("Arguments")
			for j := 0; j < args.Len(); j++ {
				parts = append(parts, cfpDyn(args.Index(j)))
			}
			got = append(got, strings.Join(parts, " ; "))
		}
		want := append([]string(nil), r.callLog...)
		if len(cs.Tasks) > 1 {
			sort.Strings(got)
			sort.Strings(want)
		}
		for i := range want {
			if i >= len(got) || got[i] != want[i] {
				g := "(missing)"
				if i < len(got) {
					g = got[i]
				}
				return &Violation{"recorded-call-arguments-differ", site, fmt.Sprintf("unroll=%v", r.unroll), "each recorded call holds the arguments of exactly one actual call: " + short(want[i], 300), short(g, 300)}, st
			}
		}
	}
	return nil, st
}

// tokenType reports whether generated values of t have a unique content fingerprint.
func tokenType(t reflect.Type, depth int) bool {
	if depth > 4 {
		return false
	}
	switch t.Kind() {
	case reflect.String, reflect.Int, reflect.Int16, reflect.Int32, reflect.Int64, reflect.Uint, reflect.Uint16, reflect.Uint32, reflect.Uint64, reflect.Float32, reflect.Float64:
		return true
	case reflect.Ptr, reflect.Array:
		return tokenType(t.Elem(), depth+1)
	case reflect.Interface:
		return true // an *Omni with a unique tag, or a unique scalar
	case reflect.Struct:
		for i := 0; i < t.NumField(); i++ {
			if t.Field(i).IsExported() && tokenType(t.Field(i).Type, depth+1) {
				return true
			}
		}
	}
	return false // bool, 8-bit integers, slices (may be empty), maps, chans, funcs
}

// tokenMethod reports whether some fixed parameter of m carries a unique token (so that exact
// matchers tell the calls of different operations and tasks apart).
func tokenMethod(m *methodInfo) bool {
	for i := 0; i < m.Type.NumIn(); i++ {
		if m.Variadic && i == m.Type.NumIn()-1 {
			continue
		}
		if tokenType(m.Type.In(i), 0) && !identityOnly(m.Type.In(i)) {
			return true
		}
	}
	return false
}

var tStyles = []string{"return", "return", "run+return", "runandreturn", "runandreturn", "providers", "none", "run", "untyped-return"}

func genTestifyCase(prop string, reg *Registration, cs *Case, ms []methodInfo, r *Rng) {
	if prop == "C03" {
		cs.Sched = simsync.Config{Strategy: "random", Seed: r.U64(), MaxSteps: 20000}
		// per method one matcher class, so that overlapping expectations are identical in shape
		class := map[string]string{}
		for i := range ms {
			if tokenMethod(&ms[i]) && r.Chance(4, 5) {
				class[ms[i].Name] = pickS(r, []string{"exact", "exact", "exact", "mixed"})
			} else {
				class[ms[i].Name] = "anything"
			}
		}
		var ops []Op
		n := 1 + r.Intn(14)
		var expIdx []int
		for i := 0; i < n; i++ {
			k := r.Intn(10)
			switch {
			case k < 4 || len(expIdx) == 0:
				m := ms[r.Intn(len(ms))]
				op := Op{Kind: "expect", Method: m.Name, Seed: r.U64(), Style: pickS(r, tStyles), Times: pickS(r, []string{"", "", "once", "twice", "times3", "maybe"}), Match: class[m.Name]}
				if r.Chance(1, 4) {
					op.NArgs = 1 // empty variadic list
				}
				ops = append(ops, op)
				expIdx = append(expIdx, len(ops))
			case k < 9:
				ref := expIdx[r.Intn(len(expIdx))]
				ops = append(ops, Op{Kind: "call", Method: ops[ref-1].Method, Ref: ref})
			default:
				m := ms[r.Intn(len(ms))]
				ops = append(ops, Op{Kind: "call", Method: m.Name, Seed: r.U64()}) // most likely unmatched
			}
		}
		if r.Chance(2, 3) {
			ops = append(ops, Op{Kind: "cleanup"})
		}
		cs.Tasks = [][]Op{ops}
		return
	}
	// C05: several tasks, each registering its own (exactly matched, token-carrying)
	// expectations and calling them; one task may call without expectation
	var tok []methodInfo
	for i := range ms {
		if tokenMethod(&ms[i]) {
			tok = append(tok, ms[i])
		}
	}
	if len(tok) == 0 {
		return // no method of this interface can be matched exactly: GenCase draws another mock
	}
	if r.Chance(1, 3) {
		// one expectation, registered up front and matched by Anything, served to several
		// tasks at once: every caller must still get its own arguments into the callbacks
		m := ms[r.Intn(len(ms))]
		if m.Type.NumIn() == 0 {
			m = tok[r.Intn(len(tok))]
		}
		cs.Setup = []Op{{Kind: "expect", Method: m.Name, Seed: r.U64(), Style: pickS(r, []string{"run+return", "run+return", "runandreturn", "providers", "return"}), Match: "anything", NArgs: 1 + r.Intn(4)}}
		nt := 2 + r.Intn(3)
		for t := 0; t < nt; t++ {
			var ops []Op
			for c := 1 + r.Intn(3); c > 0; c-- {
				ops = append(ops, Op{Kind: "call", Method: m.Name, Seed: r.U64(), Ref: -1})
			}
			cs.Tasks = append(cs.Tasks, ops)
		}
		cs.NilRate = 0
		cs.Sched = schedFor(r)
		return
	}
	hot := tok[r.Intn(len(tok))]
	nt := 2 + r.Intn(3)
	for t := 0; t < nt; t++ {
		var ops []Op
		ne := 1 + r.Intn(2)
		for e := 0; e < ne; e++ {
			m := hot
			if r.Chance(1, 3) {
				m = tok[r.Intn(len(tok))]
			}
			ops = append(ops, Op{Kind: "expect", Method: m.Name, Seed: r.U64(), Style: pickS(r, []string{"return", "run+return", "runandreturn", "providers"}), Times: pickS(r, []string{"", "", "once"}), Match: "exact"})
			ref := len(ops)
			nc := 1 + r.Intn(2)
			if ops[ref-1].Times == "once" {
				nc = 1
			}
			for c := 0; c < nc; c++ {
				ops = append(ops, Op{Kind: "call", Method: m.Name, Ref: ref})
			}
		}
		if t == nt-1 && r.Chance(1, 3) && tokenMethod(&hot) {
			ops = append(ops, Op{Kind: "call", Method: hot.Name, Seed: r.U64()}) // unmatched: FailNow mid-call
		}
		cs.Tasks = append(cs.Tasks, ops)
	}
	cs.NilRate = 0 // tokens must stay unique across tasks
	cs.Sched = schedFor(r)
}
