package msim

import (
	"fmt"
	"reflect"
	"sort"
	"strings"

	"verif/sim/msim/simsync"
)

// Registration describes one generated mock (interface × option set) linked into the driver.
type Registration struct {
	Variant   string          // e.g. "matryer-stub-resets"
	Style     string          // matryer | testify
	Opts      map[string]bool // stub-impl, with-resets, skip-ensure, unroll-variadic
	Iface     string
	IfaceType reflect.Type
	New       func(t *RecT) any
	Src       string // source text of the interface when it is a seeded random one ("" for the fixed corpus)
}

func (r *Registration) Key() string { return r.Variant + "/" + r.Iface }

// Op is one operation of a task. Which fields matter depends on Kind.
type Op struct {
	Kind   string `json:"kind"` // matryer: call | calls | reset | resetall | setfunc ; testify: expect | call | cleanup | assert
	Method string `json:"method,omitempty"`
	Seed   uint64 `json:"seed,omitempty"`
	Mode   string `json:"mode,omitempty"`  // setfunc: echo | nil | panic
	Style  string `json:"style,omitempty"` // expect: return | run+return | runandreturn | providers | wholefunc | none | run
	Times  string `json:"times,omitempty"` // expect: "" | once | twice | times3 | maybe
	Match  string `json:"match,omitempty"` // expect: exact | anything | mixed
	Ref    int    `json:"ref,omitempty"`   // call: index (1-based) of the expect op (same task list order) whose arguments to use; 0 = fresh arguments (no expectation); -k = fresh arguments shaped like Setup[k-1] (an Anything-matched shared expectation)
	NArgs  int    `json:"nargs,omitempty"` // number of variadic elements (-1 = draw)
}

type Case struct {
	Prop    string            `json:"prop"`
	Key     string            `json:"key"` // registration key
	Modes   map[string]string `json:"modes,omitempty"`
	Setup   []Op              `json:"setup,omitempty"` // operations performed before the tasks start (shared expectations)
	Tasks   [][]Op            `json:"tasks"`
	Sched   simsync.Config    `json:"sched"`
	NilRate int               `json:"nil_rate"`
	Seed    uint64            `json:"seed"`
	// IfaceSrc is the source text of the mocked interface when it is a seeded random one: a replay
	// re-creates exactly this interface instead of deriving the random ones from a seed.
	IfaceSrc string `json:"iface_src,omitempty"`
}

type Violation struct {
	Clause   string `json:"clause"`
	Site     string `json:"site"`
	Trigger  string `json:"trigger"`
	Expected string `json:"expected"`
	Observed string `json:"observed"`
}

func (v *Violation) Sig() string { return v.Clause + " | " + v.Site + " | " + v.Trigger }

// RunStats are the per-run measurements that feed evidence.
type RunStats struct {
	Steps       int
	Preemptions int
	Blocks      int
	Tasks       int
	Ops         int
	SchedKey    string
	Tags        []string
	Inconcl     int
	SharedMeth  bool // ≥2 tasks touched one method
}

type methodInfo struct {
	Name     string
	Type     reflect.Type // func type without receiver
	Variadic bool
}

func ifaceMethods(t reflect.Type) []methodInfo {
	var ms []methodInfo
	for i := 0; i < t.NumMethod(); i++ {
		m := t.Method(i)
		ms = append(ms, methodInfo{Name: m.Name, Type: m.Type, Variadic: m.Type.IsVariadic()})
	}
	sort.Slice(ms, func(i, j int) bool { return ms[i].Name < ms[j].Name })
	return ms
}

func findMethod(ms []methodInfo, name string) *methodInfo {
	for i := range ms {
		if ms[i].Name == name {
			return &ms[i]
		}
	}
	return nil
}

// CheckSupported verifies that every parameter/result type of the interface can be generated.
func CheckSupported(t reflect.Type) error {
	for _, m := range ifaceMethods(t) {
		for i := 0; i < m.Type.NumIn(); i++ {
			if err := Supported(m.Type.In(i), 0); err != nil {
				return fmt.Errorf("%s.%s: %w", t, m.Name, err)
			}
		}
		for i := 0; i < m.Type.NumOut(); i++ {
			if err := Supported(m.Type.Out(i), 0); err != nil {
				return fmt.Errorf("%s.%s: %w", t, m.Name, err)
			}
		}
	}
	return nil
}

// argSet is a generated argument list for one call.
type argSet struct {
	Vals  []reflect.Value // as passed to reflect's Call (variadic elements unrolled)
	FPs   []string        // one per declared parameter (the variadic parameter has one FPVariadic entry)
	NVar  int
	Descr string
}

func genArgs(m *methodInfo, g *Gen, nvar int) argSet {
	var a argSet
	n := m.Type.NumIn()
	var descr []string
	for j := 0; j < n; j++ {
		if m.Variadic && j == n-1 {
			et := m.Type.In(j).Elem()
			k := nvar
			if k < 0 {
				k = g.R.Intn(4)
			}
			var elems []reflect.Value
			for e := 0; e < k; e++ {
				elems = append(elems, g.Value(et))
			}
			a.Vals = append(a.Vals, elems...)
			a.FPs = append(a.FPs, FPVariadic(elems))
			a.NVar = k
			descr = append(descr, Describe(reflect.ValueOf(0))[:0]+FPVariadic(elems))
			continue
		}
		v := g.Value(m.Type.In(j))
		a.Vals = append(a.Vals, v)
		a.FPs = append(a.FPs, FP(v))
		descr = append(descr, Describe(v))
	}
	a.Descr = "(" + strings.Join(descr, ", ") + ")"
	return a
}

func fpsOf(vs []reflect.Value) []string {
	out := make([]string, len(vs))
	for i := range vs {
		out[i] = FP(vs[i])
	}
	return out
}

// fpsOfReceived fingerprints arguments as a callee sees them (the variadic parameter arrives as
// a slice).
func fpsOfReceived(m *methodInfo, in []reflect.Value) []string {
	out := make([]string, len(in))
	for j := range in {
		if m.Variadic && j == len(in)-1 {
			out[j] = FPVariadicSlice(in[j])
		} else {
			out[j] = FP(in[j])
		}
	}
	return out
}

func eqStrs(a, b []string) bool {
	if len(a) != len(b) {
		return false
	}
	for i := range a {
		if a[i] != b[i] {
			return false
		}
	}
	return true
}

type panicSentinel struct{ tag string }

// safeCall invokes fn and returns what it panicked with, if anything.
func safeCall(fn func()) (pv any, panicked bool) {
	defer func() {
		if r := recover(); r != nil {
			pv, panicked = r, true
		}
	}()
	fn()
	return nil, false
}

func short(s string, n int) string {
	if len(s) > n {
		return s[:n] + "…"
	}
	return s
}
