// Package simsync is the simulated `sync` that instrumented generated mocks are compiled
// against (their `import "sync"` is re-pointed here), together with the deterministic
// cooperative scheduler and the vector-clock race detector of engine M.
//
// Tasks are real goroutines of which exactly one runs at any time. A task parks at every Step
// (inserted before each statement of generated method bodies), at every lock operation and
// wherever the driver asks. At each park the scheduler chooses the next runnable task from the
// run's strategy and PRNG; the list of choices is the schedule and replays exactly.
package simsync

import (
	"fmt"
	"runtime"
)

const MaxTasks = 8

type VC [MaxTasks]uint32

func (a *VC) join(b *VC) {
	for i := range a {
		if b[i] > a[i] {
			a[i] = b[i]
		}
	}
}

func (a *VC) leq(b *VC) bool {
	for i := range a {
		if a[i] > b[i] {
			return false
		}
	}
	return true
}

type taskState int

const (
	ready taskState = iota
	running
	blocked
	done
)

type Task struct {
	ID      int
	Name    string
	state   taskState
	wake    chan struct{}
	vc      VC
	fn      func()
	Panic   any // value the task body ended with, if it panicked
	blockOn string
	prio    int
}

// Race is one detected happens-before data race.
type Race struct {
	Loc          string
	SiteA, SiteB string
	TaskA, TaskB int
	WriteA       bool
	WriteB       bool
}

type locState struct {
	wTask  int
	wClock uint32
	wSite  string
	hasW   bool
	reads  VC
	rSites [MaxTasks]string
}

type locKey struct {
	obj  any
	path string
}

// Strategy names: "random", "pct", "rr" (round-robin, preempt with probability 1/8),
// "replay" (follow Choices, then lowest-index runnable without preemption).
type Config struct {
	Strategy string
	Seed     uint64
	Choices  []int // replay
	MaxSteps int
	PCTDepth int
}

type Sim struct {
	cfg      Config
	tasks    []*Task
	cur      *Task
	parked   chan struct{}
	rng      uint64
	Choices  []int // decisions taken (task index per scheduling point)
	Steps    int
	Events   uint64
	Races    []Race
	Deadlock bool
	Stalled  bool // step cap hit with runnable tasks
	Fatal    string
	locs     map[locKey]*locState
	active   bool
	// probes
	Preemptions int
	Blocks      int
	pctChange   map[int]bool
	lastTask    int
	LockOrder   []string
	// the foreign library's mutex (see Foreign)
	foreignVC     VC
	ForeignCalls  int
	ForeignDirect int
}

// S is the simulation generated code talks to. nil ⇒ no simulation: Step/Access are no-ops and
// the simulated mutexes act as uncontended locks (set-up and quiescent inspection code).
var S *Sim

func New(cfg Config) *Sim {
	if cfg.MaxSteps == 0 {
		cfg.MaxSteps = 4000
	}
	s := &Sim{cfg: cfg, parked: make(chan struct{}), rng: cfg.Seed*0x9E3779B97F4A7C15 + 0xABCDEF, locs: map[locKey]*locState{}, lastTask: -1}
	return s
}

func (s *Sim) rand() uint64 {
	s.rng += 0x9E3779B97F4A7C15
	z := s.rng
	z = (z ^ (z >> 30)) * 0xBF58476D1CE4E5B9
	z = (z ^ (z >> 27)) * 0x94D049BB133111EB
	return z ^ (z >> 31)
}

// Go registers a task. Must be called before Run.
func (s *Sim) Go(name string, fn func()) *Task {
	if len(s.tasks) >= MaxTasks {
		panic("simsync: too many tasks")
	}
	t := &Task{ID: len(s.tasks), Name: name, wake: make(chan struct{}), fn: fn}
	t.vc[t.ID] = 1
	s.tasks = append(s.tasks, t)
	return t
}

type goexitSentinel struct{}

// Run executes all registered tasks to completion (or deadlock / step cap) under the
// configured strategy. It returns when every task is done or nothing can run.
func (s *Sim) Run() {
	S = s
	s.active = true
	defer func() { s.active = false; S = nil }()
	if s.cfg.Strategy == "pct" {
		n := len(s.tasks)
		perm := make([]int, n)
		for i := range perm {
			perm[i] = i
		}
		for i := n - 1; i > 0; i-- {
			j := int(s.rand() % uint64(i+1))
			perm[i], perm[j] = perm[j], perm[i]
		}
		for i, t := range s.tasks {
			t.prio = perm[i] + 10
		}
		s.pctChange = map[int]bool{}
		d := s.cfg.PCTDepth
		if d == 0 {
			d = 3
		}
		for i := 0; i < d; i++ {
			s.pctChange[int(s.rand()%200)] = true
		}
	}
	for _, t := range s.tasks {
		t := t
		go func() {
			<-t.wake
			defer func() {
				if r := recover(); r != nil {
					t.Panic = r
				}
				t.state = done
				s.parked <- struct{}{}
			}()
			t.fn()
		}()
	}
	for {
		var runnable []*Task
		for _, t := range s.tasks {
			if t.state == ready {
				runnable = append(runnable, t)
			}
		}
		if len(runnable) == 0 {
			for _, t := range s.tasks {
				if t.state == blocked {
					s.Deadlock = true
				}
			}
			break
		}
		if s.Steps >= s.cfg.MaxSteps {
			s.Stalled = true
			break
		}
		t := s.pick(runnable)
		s.Choices = append(s.Choices, t.ID)
		if s.lastTask >= 0 && s.lastTask != t.ID && s.tasks[s.lastTask].state == ready {
			s.Preemptions++
		}
		s.lastTask = t.ID
		s.Steps++
		s.Events++
		t.state = running
		s.cur = t
		t.wake <- struct{}{}
		<-s.parked
		s.cur = nil
		if s.Fatal != "" {
			break
		}
	}
	// abandon tasks that cannot finish (deadlock / stall / fatal): their goroutines stay parked
	// forever on an unbuffered channel; they hold no real locks. They are few and tiny.
}

func (s *Sim) pick(runnable []*Task) *Task {
	idx := len(s.Choices)
	switch s.cfg.Strategy {
	case "replay":
		if idx < len(s.cfg.Choices) {
			for _, t := range runnable {
				if t.ID == s.cfg.Choices[idx] {
					return t
				}
			}
		}
		// beyond the recorded prefix: keep running the last task if possible, else lowest id
		for _, t := range runnable {
			if t.ID == s.lastTask {
				return t
			}
		}
		return runnable[0]
	case "pct":
		if s.pctChange[s.Steps] && s.lastTask >= 0 {
			s.tasks[s.lastTask].prio = -s.Steps // drop below everyone
		}
		best := runnable[0]
		for _, t := range runnable {
			if t.prio > best.prio {
				best = t
			}
		}
		return best
	case "rr":
		for _, t := range runnable {
			if t.ID == s.lastTask && s.rand()%8 != 0 {
				return t
			}
		}
		return runnable[int(s.rand()%uint64(len(runnable)))]
	default: // random
		return runnable[int(s.rand()%uint64(len(runnable)))]
	}
}

// yield parks the current task as ready.
func (s *Sim) yield() {
	t := s.cur
	if t == nil {
		return
	}
	t.state = ready
	s.parked <- struct{}{}
	<-t.wake
}

func (s *Sim) block(on string) {
	t := s.cur
	t.state = blocked
	t.blockOn = on
	s.Blocks++
	s.parked <- struct{}{}
	<-t.wake
}

// Tick returns a fresh global event number (used to stamp invoke/return of operations).
func Tick() uint64 {
	if S == nil {
		return 0
	}
	S.Events++
	return S.Events
}

// Yield is a scheduling point for driver code (callbacks etc.).
func Yield() {
	if S != nil && S.cur != nil {
		S.yield()
	}
}

// CurTask returns the id of the running task, or -1.
func CurTask() int {
	if S == nil || S.cur == nil {
		return -1
	}
	return S.cur.ID
}

// Step is inserted before every statement of generated method bodies.
func Step(site string) {
	if S != nil && S.cur != nil {
		S.yield()
	}
}

// Access is inserted before statements of generated code that read or write a field of the
// mock (or a package-level variable of the generated package).
func Access(obj any, path string, write bool, site string) {
	s := S
	if s == nil || s.cur == nil {
		return
	}
	t := s.cur
	k := locKey{obj, path}
	l := s.locs[k]
	if l == nil {
		l = &locState{}
		s.locs[k] = l
	}
	report := func(otherTask int, otherSite string, otherWrite bool) {
		if len(s.Races) < 8 {
			s.Races = append(s.Races, Race{Loc: path, SiteA: otherSite, SiteB: site, TaskA: otherTask, TaskB: t.ID, WriteA: otherWrite, WriteB: write})
		}
	}
	if l.hasW && l.wTask != t.ID && l.wClock > t.vc[l.wTask] {
		report(l.wTask, l.wSite, true)
	}
	if write {
		for u := 0; u < MaxTasks; u++ {
			if u != t.ID && l.reads[u] > t.vc[u] {
				report(u, l.rSites[u], false)
			}
		}
		l.hasW, l.wTask, l.wClock, l.wSite = true, t.ID, t.vc[t.ID], site
		l.reads = VC{}
	} else {
		l.reads[t.ID] = t.vc[t.ID]
		l.rSites[t.ID] = site
	}
}

// ForeignOwned is the pseudo-location that stands for all state a foreign library (testify's
// mock.Mock and mock.Call) guards with a mutex of its own that the simulation cannot see.
const ForeignOwned = "state owned and locked by testify (mock.Mock / mock.Call fields)"

// Foreign models one call into that library as a critical section on its mutex: acquire, touch
// the owned state, release. Calls into the library are atomic under the cooperative scheduler
// (no scheduling point inside), which is what its own lock guarantees.
func Foreign(site string) {
	s := S
	if s == nil || s.cur == nil {
		return
	}
	t := s.cur
	t.vc.join(&s.foreignVC)
	Access(nil, ForeignOwned, true, site)
	s.foreignVC = t.vc
	t.vc[t.ID]++
	s.ForeignCalls++
}

// ForeignAccess is generated code reading or writing a field of the foreign library's objects
// directly, that is without the library's lock.
func ForeignAccess(path string, write bool, site string) {
	if S != nil && S.cur != nil {
		S.ForeignDirect++
	}
	Access(nil, ForeignOwned, write, site+" (direct access to "+path+")")
}

// ---------------------------------------------------------------------------------------------
// simulated sync primitives (zero values are usable, like the real ones)

type RWMutex struct {
	w        bool
	readers  int
	wWaiting int
	waiters  []*Task
	wvc, rvc VC
	name     string
}

func fatal(msg string) {
	if S != nil {
		S.Fatal = msg
	}
	panic("fatal error: " + msg)
}

func (m *RWMutex) wakeAll() {
	for _, t := range m.waiters {
		if t.state == blocked {
			t.state = ready
		}
	}
	m.waiters = m.waiters[:0]
}

func (m *RWMutex) Lock() {
	s := S
	if s == nil || s.cur == nil {
		if m.w || m.readers > 0 {
			panic("simsync: Lock of a held RWMutex outside a simulation")
		}
		m.w = true
		return
	}
	s.yield()
	t := s.cur
	for m.w || m.readers > 0 {
		m.wWaiting++
		m.waiters = append(m.waiters, t)
		s.block("Lock")
		m.wWaiting--
	}
	m.w = true
	t.vc.join(&m.wvc)
	t.vc.join(&m.rvc)
	s.LockOrder = append(s.LockOrder, fmt.Sprintf("W%d", t.ID))
}

func (m *RWMutex) Unlock() {
	if !m.w {
		fatal("sync: Unlock of unlocked RWMutex")
	}
	s := S
	if s != nil && s.cur != nil {
		t := s.cur
		m.wvc = t.vc
		t.vc[t.ID]++
	}
	m.w = false
	m.wakeAll()
}

func (m *RWMutex) RLock() {
	s := S
	if s == nil || s.cur == nil {
		if m.w {
			panic("simsync: RLock of a write-locked RWMutex outside a simulation")
		}
		m.readers++
		return
	}
	s.yield()
	t := s.cur
	// as in Go: a blocked Lock call excludes new readers
	for m.w || m.wWaiting > 0 {
		m.waiters = append(m.waiters, t)
		s.block("RLock")
	}
	m.readers++
	t.vc.join(&m.wvc)
	s.LockOrder = append(s.LockOrder, fmt.Sprintf("R%d", t.ID))
}

func (m *RWMutex) RUnlock() {
	if m.readers == 0 {
		fatal("sync: RUnlock of unlocked RWMutex")
	}
	s := S
	if s != nil && s.cur != nil {
		t := s.cur
		m.rvc.join(&t.vc)
		t.vc[t.ID]++
	}
	m.readers--
	m.wakeAll()
}

func (m *RWMutex) TryLock() bool {
	if m.w || m.readers > 0 {
		return false
	}
	m.Lock()
	return true
}

func (m *RWMutex) TryRLock() bool {
	if m.w || m.wWaiting > 0 {
		return false
	}
	m.RLock()
	return true
}

// RLocker mirrors sync.RWMutex.RLocker.
func (m *RWMutex) RLocker() Locker { return rlocker{m} }

type rlocker struct{ m *RWMutex }

func (r rlocker) Lock()   { r.m.RLock() }
func (r rlocker) Unlock() { r.m.RUnlock() }

type Locker interface {
	Lock()
	Unlock()
}

type Mutex struct{ rw RWMutex }

func (m *Mutex) Lock()         { m.rw.Lock() }
func (m *Mutex) Unlock()       { m.rw.Unlock() }
func (m *Mutex) TryLock() bool { return m.rw.TryLock() }

type Once struct {
	m    Mutex
	done bool
}

func (o *Once) Do(f func()) {
	o.m.Lock()
	defer o.m.Unlock()
	if !o.done {
		o.done = true
		f()
	}
}

// Held reports whether a mutex is still held (used at quiescence: a lock left held).
func (m *RWMutex) Held() bool { return m.w || m.readers > 0 }

var _ = runtime.Gosched

// Pool mirrors sync.Pool deterministically: items are reused last-in first-out (a real pool may
// also drop items at any time; reuse is the interesting behaviour). Put(x) happens before the
// Get that returns x.
type Pool struct {
	New   func() any
	items []poolItem
}

type poolItem struct {
	v  any
	vc VC
}

func (p *Pool) Get() any {
	if n := len(p.items); n > 0 {
		it := p.items[n-1]
		p.items = p.items[:n-1]
		if S != nil && S.cur != nil {
			S.cur.vc.join(&it.vc)
		}
		return it.v
	}
	if p.New != nil {
		return p.New()
	}
	return nil
}

func (p *Pool) Put(x any) {
	it := poolItem{v: x}
	if S != nil && S.cur != nil {
		it.vc = S.cur.vc
		S.cur.vc[S.cur.ID]++
	}
	p.items = append(p.items, it)
}

// WaitGroup mirrors sync.WaitGroup (Wait parks the task until the counter is zero).
type WaitGroup struct {
	n       int
	waiters []*Task
	vc      VC
}

func (w *WaitGroup) Add(d int) {
	w.n += d
	if w.n < 0 {
		fatal("sync: negative WaitGroup counter")
	}
	if w.n == 0 {
		for _, t := range w.waiters {
			if t.state == blocked {
				t.state = ready
			}
		}
		w.waiters = nil
	}
}

func (w *WaitGroup) Done() {
	if S != nil && S.cur != nil {
		w.vc.join(&S.cur.vc)
		S.cur.vc[S.cur.ID]++
	}
	w.Add(-1)
}

func (w *WaitGroup) Wait() {
	s := S
	if s == nil || s.cur == nil {
		return
	}
	s.yield()
	for w.n > 0 {
		w.waiters = append(w.waiters, s.cur)
		s.block("WaitGroup.Wait")
	}
	s.cur.vc.join(&w.vc)
}

// Map mirrors sync.Map for the operations generated code could plausibly use.
type Map struct {
	m  map[any]any
	mu Mutex
}

func (m *Map) Load(k any) (any, bool) {
	m.mu.Lock()
	defer m.mu.Unlock()
	v, ok := m.m[k]
	return v, ok
}

func (m *Map) Store(k, v any) {
	m.mu.Lock()
	defer m.mu.Unlock()
	if m.m == nil {
		m.m = map[any]any{}
	}
	m.m[k] = v
}

func (m *Map) LoadOrStore(k, v any) (any, bool) {
	m.mu.Lock()
	defer m.mu.Unlock()
	if m.m == nil {
		m.m = map[any]any{}
	}
	if old, ok := m.m[k]; ok {
		return old, true
	}
	m.m[k] = v
	return v, false
}

func (m *Map) Delete(k any) {
	m.mu.Lock()
	defer m.mu.Unlock()
	delete(m.m, k)
}
