package simsync

import (
	"fmt"
	"reflect"
	"testing"
)

// Self-checks of the simulator's own oracles: the scheduler replays, the simulated RWMutex has
// Go's semantics, and the happens-before detector reports exactly the unordered conflicts.

type cell struct {
	mu RWMutex
	v  int
}

func run(cfg Config, tasks ...func()) *Sim {
	s := New(cfg)
	for i, t := range tasks {
		s.Go(fmt.Sprintf("t%d", i), t)
	}
	s.Run()
	return s
}

func TestSameSeedSameSchedule(t *testing.T) {
	for _, strat := range []string{"random", "pct", "rr"} {
		mk := func() *Sim {
			c := &cell{}
			body := func() {
				for i := 0; i < 5; i++ {
					Step("a")
					c.mu.Lock()
					Access(c, "v", true, "w")
					c.v++
					c.mu.Unlock()
				}
			}
			return run(Config{Strategy: strat, Seed: 42}, body, body, body)
		}
		a, b := mk(), mk()
		if !reflect.DeepEqual(a.Choices, b.Choices) {
			t.Fatalf("%s: same seed, different schedules", strat)
		}
		if len(a.Races) != 0 || a.Deadlock {
			t.Fatalf("%s: locked increments flagged: %+v", strat, a.Races)
		}
		r := run(Config{Strategy: "replay", Choices: a.Choices}, func() {}, func() {}, func() {})
		_ = r
	}
}

func TestUnlockedWritesRace(t *testing.T) {
	found := 0
	for seed := uint64(0); seed < 50; seed++ {
		c := &cell{}
		w := func() { Step("s"); Access(c, "v", true, "w"); c.v++ }
		s := run(Config{Strategy: "random", Seed: seed}, w, w)
		if len(s.Races) > 0 {
			found++
		}
	}
	if found != 50 {
		t.Fatalf("an unordered write/write conflict must be reported in every schedule in which both happen: %d/50", found)
	}
}

func TestWriteUnderRLockRaces(t *testing.T) {
	found := 0
	for seed := uint64(0); seed < 50; seed++ {
		c := &cell{}
		w := func() { c.mu.RLock(); Access(c, "v", true, "w"); c.v = 1; c.mu.RUnlock() }
		r := func() { c.mu.RLock(); Access(c, "v", false, "r"); _ = c.v; c.mu.RUnlock() }
		s := run(Config{Strategy: "random", Seed: seed}, w, r)
		if len(s.Races) > 0 {
			found++
		}
	}
	if found != 50 {
		t.Fatalf("a write under RLock is unordered with a reader under RLock: %d/50", found)
	}
}

func TestReadersDoNotRace(t *testing.T) {
	for seed := uint64(0); seed < 50; seed++ {
		c := &cell{}
		r := func() { c.mu.RLock(); Access(c, "v", false, "r"); _ = c.v; c.mu.RUnlock() }
		w := func() { c.mu.Lock(); Access(c, "v", true, "w"); c.v++; c.mu.Unlock() }
		s := run(Config{Strategy: "pct", Seed: seed}, r, r, w, r)
		if len(s.Races) > 0 {
			t.Fatalf("seed %d: properly locked readers/writer flagged: %+v", seed, s.Races)
		}
		if s.Deadlock || s.Stalled {
			t.Fatalf("seed %d: deadlock/stall", seed)
		}
	}
}

func TestMissingUnlockDeadlocks(t *testing.T) {
	c := &cell{}
	a := func() { c.mu.Lock() } // never unlocked
	b := func() { Step("x"); Step("y"); c.mu.Lock(); c.mu.Unlock() }
	s := run(Config{Strategy: "replay", Choices: []int{0, 0, 0, 1, 1, 1, 1}}, a, b)
	if !s.Deadlock {
		t.Fatalf("a task blocked forever on a lock nobody releases is a deadlock")
	}
}

func TestWriterPreference(t *testing.T) {
	// a blocked Lock call excludes new readers (as sync.RWMutex documents)
	c := &cell{}
	var order []string
	r1 := func() {
		c.mu.RLock()
		Step("hold")
		Step("hold")
		Step("hold")
		order = append(order, "r1-out")
		c.mu.RUnlock()
	}
	w := func() { Step("w"); c.mu.Lock(); order = append(order, "w"); c.mu.Unlock() }
	r2 := func() {
		Step("a")
		Step("b")
		Step("c")
		c.mu.RLock()
		order = append(order, "r2")
		c.mu.RUnlock()
	}
	// r1 takes the read lock, w blocks on Lock, then r2 tries RLock: it must wait for w
	s := run(Config{Strategy: "replay", Choices: []int{0, 0, 1, 1, 1, 2, 2, 2, 2, 2, 0, 0, 0, 0}}, r1, w, r2)
	if s.Deadlock {
		t.Fatal("deadlock")
	}
	iw, ir2 := -1, -1
	for i, o := range order {
		if o == "w" {
			iw = i
		}
		if o == "r2" {
			ir2 = i
		}
	}
	if iw < 0 || ir2 < 0 || ir2 < iw {
		t.Fatalf("reader admitted ahead of a waiting writer: %v", order)
	}
}

func TestUnlockOfUnlockedIsFatal(t *testing.T) {
	c := &cell{}
	s := run(Config{Strategy: "random", Seed: 1}, func() { c.mu.Unlock() })
	if s.Fatal == "" {
		t.Fatal("Unlock of an unlocked RWMutex must be fatal")
	}
}

func TestPoolHandOffOrders(t *testing.T) {
	for seed := uint64(0); seed < 30; seed++ {
		var p Pool
		buf := &cell{}
		a := func() { Access(buf, "v", true, "wa"); buf.v = 1; p.Put(buf) }
		b := func() {
			for i := 0; i < 6; i++ {
				Step("poll")
				if x := p.Get(); x != nil {
					Access(x, "v", true, "wb")
					x.(*cell).v = 2
					return
				}
			}
		}
		s := run(Config{Strategy: "random", Seed: seed}, a, b)
		if len(s.Races) > 0 {
			t.Fatalf("Put happens before the Get that returns the item: %+v", s.Races)
		}
	}
}

func TestForeignCriticalSections(t *testing.T) {
	found := 0
	for seed := uint64(0); seed < 50; seed++ {
		api := func() { Step("a"); Foreign("api"); Step("b"); Foreign("api") }
		if s := run(Config{Strategy: "random", Seed: seed}, api, api, api); len(s.Races) > 0 {
			t.Fatalf("seed %d: calls into the foreign library are ordered by its own mutex: %+v", seed, s.Races)
		}
		direct := func() { Step("a"); Foreign("api"); ForeignAccess("Call.ReturnArguments", true, "direct") }
		if s := run(Config{Strategy: "random", Seed: seed}, direct, api); len(s.Races) > 0 {
			found++
		}
	}
	// unordered unless every library call of the other task happened before this task's own
	// (then the write is ordered after them through the library's mutex)
	if found < 25 {
		t.Fatalf("a direct write to foreign-owned state races with another task's later call into the library: reported in %d/50 schedules", found)
	}
	// the schedule in which the other task calls after the write
	direct := func() { Foreign("api"); ForeignAccess("Call.ReturnArguments", true, "direct") }
	late := func() { Step("a"); Step("b"); Step("c"); Foreign("api") }
	if s := run(Config{Strategy: "replay", Choices: []int{0, 0, 0, 1, 1, 1, 1, 1}}, direct, late); len(s.Races) == 0 {
		t.Fatalf("write, then the other task's call: must be reported")
	}
}
