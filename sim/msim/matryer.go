package msim

import (
	"fmt"
	"reflect"
	"sort"
	"strings"
	"time"

	"github.com/anishathalye/porcupine"

	"verif/sim/msim/simsync"
)

// ---------------------------------------------------------------------------------------------
// matryer-style mocks: C04 (forwarding and recording, sequential histories) and C05 (the same
// operations from several tasks under seeded schedules).

// pendingCall is what a task is passing to the mock right now (for identity comparison inside Func)
type pendingCall struct {
	method string
	ids    []string
}

type invocation struct {
	method  string
	argFPs  []string
	results []reflect.Value
	resFPs  []string
	idDiff  string // non-empty: an argument arrived as another value (equal content, different identity)
}

type histOp struct {
	task     int
	kind     string // call | calls | reset
	method   string
	tuple    string   // call: joined argument fingerprints
	list     []string // calls: observed tuples
	call, rt uint64
	recorded string // call: "yes" | "maybe" (nil Func without stub-impl: the statement does not say)
	nested   bool   // calls: read from inside the method's own Func (the in-flight call may or may not be included)
}

type matryerRun struct {
	reg     *Registration
	cs      *Case
	mv      reflect.Value
	methods []methodInfo
	modes   map[string]string
	log     [simsync.MaxTasks + 1][]invocation // per task (index task+1; 0 = outside simulation)
	hist    []histOp
	viol    *Violation
	resGen  *Gen
	hasRes  bool
	// held: every list a Calls() read returned, kept like a caller would keep it, with what it
	// said when it was returned
	held []heldList
	// shadow: a second instance of the same mock type that is used alongside (never judged itself)
	shadow reflect.Value
	tags   map[string]bool
	// pending: what each task is passing to the mock right now
	pending [simsync.MaxTasks + 1]*pendingCall
}

type heldList struct {
	method string
	list   reflect.Value
	fps    []string
}

func (r *matryerRun) fail(v *Violation) {
	if r.viol == nil {
		r.viol = v
	}
}

func (r *matryerRun) install(m *methodInfo, mode string) {
	f := r.mv.Elem().FieldByName(m.Name + "Func")
	if !f.IsValid() {
		r.fail(&Violation{"mock-shape", m.Name, "", "field " + m.Name + "Func", "missing"})
		return
	}
	r.modes[m.Name] = mode
	if mode == "nil" {
		f.Set(reflect.Zero(f.Type()))
		return
	}
	mm := *m
	f.Set(reflect.MakeFunc(f.Type(), func(in []reflect.Value) []reflect.Value {
		tid := simsync.CurTask() + 1
		inv := invocation{method: mm.Name, argFPs: fpsOfReceived(&mm, in)}
		if pc := r.pending[tid]; pc != nil && pc.method == mm.Name && len(pc.ids) == len(in) {
			for j := range in {
				if want := pc.ids[j]; want != "" && ID(in[j]) != want {
					inv.idDiff = fmt.Sprintf("parameter %d: passed %s, %sFunc received %s (equal content, another value)", j, want, mm.Name, ID(in[j]))
				}
			}
		}
		for i := 0; i < mm.Type.NumOut(); i++ {
			v := r.resGen.Value(mm.Type.Out(i))
			inv.results = append(inv.results, v)
			inv.resFPs = append(inv.resFPs, FP(v))
		}
		r.log[tid] = append(r.log[tid], inv)
		simsync.Yield() // the user's function is a scheduling point too
		if r.modes[mm.Name] == "reentrant" {
			// a user function may look at the calls recorded so far (e.g. to answer differently
			// on the n-th call): a nested Calls() read on the same method
			h := histOp{task: tid - 1, kind: "calls", method: mm.Name, nested: true}
			h.call = simsync.Tick()
			var out []reflect.Value
			if _, panicked := safeCall(func() { out = r.mv.MethodByName(mm.Name + "Calls").Call(nil) }); !panicked {
				h.rt = simsync.Tick()
				h.list = r.recordsOf(&mm, out[0])
				if h.list == nil {
					h.list = []string{}
				}
				r.hist = append(r.hist, h)
			}
		}
		if r.modes[mm.Name] == "panic" {
			panic(panicSentinel{mm.Name})
		}
		return inv.results
	}))
}

func tupleOf(fps []string) string { return strings.Join(fps, " ; ") }

func (r *matryerRun) recordsOf(m *methodInfo, list reflect.Value) []string {
	var out []string
	for i := 0; i < list.Len(); i++ {
		rec := list.Index(i)
		var fps []string
		for j := 0; j < rec.NumField(); j++ {
			if m.Variadic && j == rec.NumField()-1 {
				fps = append(fps, FPVariadicSlice(rec.Field(j)))
			} else {
				fps = append(fps, FP(rec.Field(j)))
			}
		}
		out = append(out, tupleOf(fps))
	}
	return out
}

func (r *matryerRun) exec(task int, oi int, op Op) {
	m := findMethod(r.methods, op.Method)
	site := r.reg.Variant
	switch op.Kind {
	case "setfunc":
		if m != nil {
			r.install(m, op.Mode)
		}
	case "call":
		if m == nil {
			return
		}
		g := &Gen{R: NewRng(op.Seed), Prefix: fmt.Sprintf("a%d.%d", task, oi), NilRate: r.cs.NilRate}
		args := genArgs(m, g, op.NArgs-1)
		mode := r.modes[m.Name]
		h := histOp{task: task, kind: "call", method: m.Name, tuple: tupleOf(args.FPs), recorded: "yes"}
		before := len(r.log[task+1])
		var outs []reflect.Value
		h.call = simsync.Tick()
		if mode == "nil" && !r.reg.Opts["stub-impl"] {
			h.recorded = "maybe"
		}
		hidx := len(r.hist)
		r.hist = append(r.hist, h)
		if r.shadow.IsValid() && op.Seed&2 != 0 {
			sg := &Gen{R: NewRng(op.Seed ^ 0x5ad0), Prefix: fmt.Sprintf("sh%d.%d", task, oi), NilRate: r.cs.NilRate}
			sargs := genArgs(m, sg, -1)
			safeCall(func() { r.shadow.MethodByName(m.Name).Call(sargs.Vals) })
		}
		// the variadic list is passed as a slice of ours (f(xs...)), so that it has an identity
		callVals, callSlice := args.Vals, false
		if m.Variadic {
			n := m.Type.NumIn()
			buf := reflect.MakeSlice(m.Type.In(n-1), args.NVar, args.NVar)
			for k := 0; k < args.NVar; k++ {
				buf.Index(k).Set(args.Vals[n-1+k])
			}
			callVals, callSlice = append(append([]reflect.Value(nil), args.Vals[:n-1]...), buf), true
		}
		r.pending[task+1] = &pendingCall{m.Name, IDs(callVals)}
		pv, panicked := safeCall(func() {
			if callSlice {
				outs = r.mv.MethodByName(m.Name).CallSlice(callVals)
			} else {
				outs = r.mv.MethodByName(m.Name).Call(callVals)
			}
		})
		r.pending[task+1] = nil
		r.hist[hidx].rt = simsync.Tick()
		invs := r.log[task+1][before:]
		trig := fmt.Sprintf("params=%d,results=%d,variadic=%v,func=%s", m.Type.NumIn(), m.Type.NumOut(), m.Variadic, mode)
		what := fmt.Sprintf("%s%s", m.Name, args.Descr)
		switch mode {
		case "nil":
			if r.reg.Opts["stub-impl"] {
				if panicked {
					r.fail(&Violation{"stub-impl-nil-func-panics", site, trig, "with stub-impl a nil " + m.Name + "Func returns zero values", fmt.Sprintf("%s panicked: %v", what, pv)})
					break
				}
				for i, o := range outs {
					if FP(o) != FP(reflect.Zero(o.Type())) {
						r.fail(&Violation{"stub-impl-non-zero-result", site, trig, "zero values", fmt.Sprintf("%s result %d = %s", what, i, Describe(o))})
					}
				}
			} else {
				if !panicked {
					r.fail(&Violation{"nil-func-no-panic", site, trig, "a panic naming " + m.Name + "Func", what + " returned normally"})
				} else if msg := fmt.Sprint(pv); !strings.Contains(msg, m.Name+"Func") {
					r.fail(&Violation{"nil-func-panic-does-not-name-func", site, trig, "a panic message naming " + m.Name + "Func", short(msg, 200)})
				}
			}
		case "panic":
			if !panicked {
				r.fail(&Violation{"func-panic-swallowed", site, trig, "the panic of " + m.Name + "Func propagates to the caller", what + " returned normally"})
			} else if _, ok := pv.(panicSentinel); !ok {
				r.fail(&Violation{"unexpected-panic", site, trig, "the user function's own panic", short(fmt.Sprint(pv), 200)})
			}
			fallthrough
		default:
			if mode != "panic" && panicked {
				r.fail(&Violation{"unexpected-panic", site, trig, what + " returns", "panic: " + short(fmt.Sprint(pv), 300)})
				break
			}
			if len(invs) != 1 {
				r.fail(&Violation{"func-invocation-count", site, trig, m.Name + "Func invoked exactly once per call", fmt.Sprintf("%d invocations during %s", len(invs), what)})
				break
			}
			if invs[0].method != m.Name {
				r.fail(&Violation{"wrong-func-invoked", site, trig, m.Name + "Func", invs[0].method + "Func"})
				break
			}
			if !eqStrs(invs[0].argFPs, args.FPs) {
				r.fail(&Violation{"func-arguments-differ", site, trig, "the call's arguments position by position: " + short(tupleOf(args.FPs), 300), short(tupleOf(invs[0].argFPs), 300)})
				break
			}
			if invs[0].idDiff != "" {
				r.fail(&Violation{"func-arguments-are-copies", site, trig, m.Name + "Func is invoked with exactly the call's arguments (what it writes through a slice, map or pointer reaches the caller)", invs[0].idDiff})
				break
			}
			if mode != "panic" {
				if got := fpsOf(outs); !eqStrs(got, invs[0].resFPs) {
					r.fail(&Violation{"results-differ", site, trig, "exactly the results of " + m.Name + "Func: " + short(tupleOf(invs[0].resFPs), 300), short(tupleOf(got), 300)})
				} else if got, want := IDs(outs), IDs(invs[0].results); !eqStrs(got, want) {
					r.fail(&Violation{"results-are-copies", site, trig, "exactly the results of " + m.Name + "Func (the very slices, maps and pointers): " + short(tupleOf(want), 300), short(tupleOf(got), 300)})
				}
			}
		}
	case "calls":
		if m == nil {
			return
		}
		h := histOp{task: task, kind: "calls", method: m.Name}
		h.call = simsync.Tick()
		var out []reflect.Value
		pv, panicked := safeCall(func() { out = r.mv.MethodByName(m.Name + "Calls").Call(nil) })
		h.rt = simsync.Tick()
		if panicked {
			r.fail(&Violation{"unexpected-panic", site, m.Name + "Calls", "returns", short(fmt.Sprint(pv), 300)})
			return
		}
		h.list = r.recordsOf(m, out[0])
		r.held = append(r.held, heldList{m.Name, out[0], h.list})
		if h.list == nil {
			h.list = []string{}
		}
		r.hist = append(r.hist, h)
	case "reset":
		if m == nil {
			return
		}
		fn := r.mv.MethodByName("Reset" + m.Name + "Calls")
		if !fn.IsValid() {
			return
		}
		h := histOp{task: task, kind: "reset", method: m.Name}
		h.call = simsync.Tick()
		safeCall(func() { fn.Call(nil) })
		h.rt = simsync.Tick()
		r.hist = append(r.hist, h)
		r.hasRes = true
	case "resetall":
		fn := r.mv.MethodByName("ResetCalls")
		if !fn.IsValid() {
			return
		}
		c := simsync.Tick()
		safeCall(func() { fn.Call(nil) })
		t := simsync.Tick()
		for _, mm := range r.methods {
			r.hist = append(r.hist, histOp{task: task, kind: "reset", method: mm.Name, call: c, rt: t})
		}
		r.hasRes = true
	}
}

// porcupine model of one method's record list
type pIn struct {
	kind  string
	tuple string
	maybe bool
}
type pOut struct{ list string }

var listModel = porcupine.Model{
	Init: func() interface{} { return "" },
	Step: func(state, input, output interface{}) (bool, interface{}) {
		s := state.(string)
		in := input.(pIn)
		switch in.kind {
		case "call":
			return true, s + in.tuple + "\x01"
		case "call-unrecorded":
			return true, s
		case "calls":
			return output.(pOut).list == s, s
		case "reset":
			return true, ""
		}
		return false, s
	},
	Equal: func(a, b interface{}) bool { return a.(string) == b.(string) },
}

func joinList(l []string) string {
	var b strings.Builder
	for _, t := range l {
		b.WriteString(t)
		b.WriteByte(1)
	}
	return b.String()
}

// RunMatryer executes one case on a fresh mock and judges it.
func RunMatryer(reg *Registration, cs *Case) (*Violation, RunStats) {
	st := RunStats{Tasks: len(cs.Tasks)}
	r := &matryerRun{reg: reg, cs: cs, methods: ifaceMethods(reg.IfaceType), modes: map[string]string{}}
	r.resGen = &Gen{R: NewRng(cs.Seed ^ 0xfeed), Prefix: "res", NilRate: cs.NilRate}
	mock := reg.New(nil)
	r.mv = reflect.ValueOf(mock)
	r.tags = map[string]bool{}
	if cs.Seed&1 == 1 {
		// two instances of one mock type are independent of each other
		r.shadow = reflect.ValueOf(reg.New(nil))
		for i := range r.methods {
			if f := r.shadow.Elem().FieldByName(r.methods[i].Name + "Func"); f.IsValid() {
				ft := f.Type()
				f.Set(reflect.MakeFunc(ft, func(in []reflect.Value) []reflect.Value {
					out := make([]reflect.Value, ft.NumOut())
					for k := range out {
						out[k] = reflect.Zero(ft.Out(k))
					}
					return out
				}))
			}
		}
		r.tags["fault:second-instance-of-the-same-mock"] = true
	}
	for i := range r.methods {
		mode := cs.Modes[r.methods[i].Name]
		if mode == "" {
			mode = "echo"
		}
		r.install(&r.methods[i], mode)
	}
	if reg.Opts["with-resets"] {
		if !r.mv.MethodByName("ResetCalls").IsValid() {
			r.fail(&Violation{"with-resets-methods-missing", reg.Variant, "ResetCalls", "with with-resets the mock has ResetCalls and Reset<M>Calls", "no ResetCalls method"})
		}
		for _, m := range r.methods {
			if !r.mv.MethodByName("Reset" + m.Name + "Calls").IsValid() {
				r.fail(&Violation{"with-resets-methods-missing", reg.Variant, "Reset<M>Calls", "with with-resets the mock has ResetCalls and Reset<M>Calls", "no Reset" + m.Name + "Calls method"})
			}
		}
	}
	if r.viol != nil {
		return r.viol, st
	}
	sim := simsync.New(cs.Sched)
	touched := map[string]map[int]bool{}
	for ti, ops := range cs.Tasks {
		ti, ops := ti, ops
		st.Ops += len(ops)
		for _, op := range ops {
			if touched[op.Method] == nil {
				touched[op.Method] = map[int]bool{}
			}
			touched[op.Method][ti] = true
		}
		sim.Go(fmt.Sprintf("task%d", ti), func() {
			for oi, op := range ops {
				r.exec(ti, oi, op)
			}
		})
	}
	for m, ts := range touched {
		if m != "" && len(ts) >= 2 {
			st.SharedMeth = true
		}
	}
	sim.Run()
	st.Steps, st.Preemptions, st.Blocks = sim.Steps, sim.Preemptions, sim.Blocks
	fired := map[string]bool{}
	for k, mode := range cs.Modes {
		if k == "_workload" {
			fired["workload:"+mode] = true
			continue
		}
		if mode != "" && mode != "echo" {
			fired["fault:func-"+mode] = true
		}
	}
	for _, ops := range cs.Tasks {
		for _, op := range ops {
			if op.Kind == "setfunc" && op.Mode != "echo" {
				fired["fault:func-"+op.Mode] = true
			}
			if op.Kind == "reset" || op.Kind == "resetall" {
				fired["fault:reset-between-calls"] = true
			}
		}
	}
	for k := range r.tags {
		fired[k] = true
	}
	for k := range fired {
		st.Tags = append(st.Tags, k)
	}
	sort.Strings(st.Tags)
	st.SchedKey = strings.Join(sim.LockOrder, "")
	cs.Sched.Choices = sim.Choices
	site := reg.Variant
	multi := len(cs.Tasks) > 1
	switch {
	case sim.Fatal != "":
		return &Violation{"runtime-fatal", site, sim.Fatal, "no fatal error", sim.Fatal}, st
	case len(sim.Races) > 0:
		ra := sim.Races[0]
		return &Violation{"data-race", site, ra.Loc, "no unsynchronised conflicting accesses", fmt.Sprintf("%s: task %d at %s (write=%v) and task %d at %s (write=%v) are unordered", ra.Loc, ra.TaskA, ra.SiteA, ra.WriteA, ra.TaskB, ra.SiteB, ra.WriteB)}, st
	case sim.Deadlock:
		return &Violation{"deadlock", site, "", "every operation finishes", "tasks blocked with nothing runnable"}, st
	case sim.Stalled:
		return &Violation{"no-progress-within-step-bound", site, "", fmt.Sprintf("all tasks finish within %d scheduler steps", cs.Sched.MaxSteps), "step cap reached with runnable tasks"}, st
	}
	if r.viol != nil {
		return r.viol, st
	}
	// a list handed out by Calls() is the caller's: nothing that happens later changes it
	for _, h := range r.held {
		if now := r.recordsOf(findMethod(r.methods, h.method), h.list); !eqStrs(now, h.fps) {
			return &Violation{"calls-list-changed-after-it-was-returned", site, fmt.Sprintf("variadic=%v", findMethod(r.methods, h.method).Variadic), "the records returned by " + h.method + "Calls() stay what they were: " + short(strings.Join(h.fps, " | "), 300), short(strings.Join(now, " | "), 300)}, st
		}
	}
	// final lists at quiescence (outside the simulation)
	final := map[string][]string{}
	for i := range r.methods {
		m := &r.methods[i]
		var out []reflect.Value
		pv, panicked := safeCall(func() { out = r.mv.MethodByName(m.Name + "Calls").Call(nil) })
		if panicked {
			return &Violation{"lock-left-held", site, m.Name, "locks are released when operations return", short(fmt.Sprint(pv), 200)}, st
		}
		final[m.Name] = r.recordsOf(m, out[0])
	}
	// per method: sequential replay (one task) or linearizability (several tasks)
	byMethod := map[string][]histOp{}
	for _, h := range r.hist {
		byMethod[h.method] = append(byMethod[h.method], h)
	}
	names := make([]string, 0, len(byMethod))
	for n := range byMethod {
		names = append(names, n)
	}
	sort.Strings(names)
	for _, name := range names {
		hs := byMethod[name]
		hs = append(hs, histOp{task: -1, kind: "calls", method: name, list: final[name], call: 1 << 61, rt: 1<<61 + 1})
		if final[name] == nil {
			hs[len(hs)-1].list = []string{}
		}
		if !multi {
			var model []string
			maybe := false
			for _, h := range hs {
				switch h.kind {
				case "call":
					if h.recorded == "maybe" {
						maybe = true // from here on the list may or may not contain this tuple
					}
					model = append(model, h.tuple)
				case "reset":
					model = nil
					maybe = false
				case "calls":
					if maybe {
						continue // not judged after an unspecified recording
					}
					if h.nested && len(model) > 0 && eqStrs(model[:len(model)-1], h.list) {
						continue // read from inside the Func: the in-flight call need not be visible yet
					}
					if !eqStrs(model, h.list) {
						return &Violation{"calls-list-differs", site, fmt.Sprintf("variadic=%v,func=%s", findMethod(r.methods, name).Variadic, r.modes[name]), "one record per call, in call order, fields in parameter order: " + short(strings.Join(model, " | "), 400), short(strings.Join(h.list, " | "), 400)}, st
					}
				}
			}
			continue
		}
		var ops []porcupine.Operation
		for _, h := range hs {
			in := pIn{kind: h.kind, tuple: h.tuple}
			if h.kind == "call" && h.recorded == "maybe" {
				continue // left out: may or may not be in the list; such runs avoid nil funcs anyway
			}
			ops = append(ops, porcupine.Operation{ClientId: h.task + 1, Input: in, Call: int64(h.call), Output: pOut{joinList(h.list)}, Return: int64(h.rt)})
		}
		// cheap necessary conditions, whatever the size of the history: every observed record is
		// the tuple of an issued call and appears once; a call that returned before a read was
		// invoked (no reset in between or overlapping) is in that read
		if v := r.cheapListChecks(name, hs, site); v != nil {
			return v, st
		}
		if len(ops) > 12 {
			st.Inconcl++
			st.Tags = append(st.Tags, "probe:porcupine-skipped-large-partition")
			continue
		}
		res := porcupine.CheckOperationsTimeout(listModel, ops, 2*time.Second)
		switch res {
		case porcupine.Illegal:
			return &Violation{"not-linearizable", site, fmt.Sprintf("variadic=%v", findMethod(r.methods, name).Variadic), "the recorded history of " + name + " is linearizable against a list model (no call lost, doubled or torn)", describeHist(hs)}, st
		case porcupine.Unknown:
			st.Inconcl++
		}
	}
	// conservation at quiescence (no reset in the run)
	if !r.hasRes {
		for _, name := range names {
			want := map[string]int{}
			maybe := map[string]int{}
			for _, h := range byMethod[name] {
				if h.kind == "call" {
					if h.recorded == "maybe" {
						maybe[h.tuple]++
					} else {
						want[h.tuple]++
					}
				}
			}
			got := map[string]int{}
			for _, t := range final[name] {
				got[t]++
			}
			for t, n := range got {
				if n > want[t]+maybe[t] {
					return &Violation{"record-not-of-one-call", site, fmt.Sprintf("variadic=%v", findMethod(r.methods, name).Variadic), "each recorded call holds the arguments of exactly one actual call", fmt.Sprintf("record %s appears %d times, issued %d times", short(t, 200), n, want[t]+maybe[t])}, st
				}
			}
			for t, n := range want {
				if got[t] < n {
					return &Violation{"call-lost", site, fmt.Sprintf("variadic=%v", findMethod(r.methods, name).Variadic), "no call is lost", fmt.Sprintf("call %s issued %d times, recorded %d times (list length %d)", short(t, 200), n, got[t], len(final[name]))}, st
				}
			}
		}
	}
	return nil, st
}

func (r *matryerRun) cheapListChecks(name string, hs []histOp, site string) *Violation {
	issued := map[string]int{}
	hasReset := false
	for _, h := range hs {
		if h.kind == "call" {
			issued[h.tuple]++
		}
		if h.kind == "reset" {
			hasReset = true
		}
	}
	trig := fmt.Sprintf("variadic=%v", findMethod(r.methods, name).Variadic)
	for _, h := range hs {
		if h.kind != "calls" {
			continue
		}
		seen := map[string]int{}
		for _, t := range h.list {
			seen[t]++
			if seen[t] > issued[t] {
				return &Violation{"record-not-of-one-call", site, trig, "each recorded call holds the arguments of exactly one actual call, none twice", fmt.Sprintf("a Calls() read returned %s %d times, %d such calls were issued", short(t, 200), seen[t], issued[t])}
			}
		}
		if hasReset {
			continue
		}
		done := map[string]int{}
		for _, c := range hs {
			if c.kind == "call" && c.recorded == "yes" && c.rt != 0 && c.rt < h.call {
				done[c.tuple]++
			}
		}
		for t, n := range done {
			if seen[t] < n {
				return &Violation{"call-lost", site, trig, "a call that returned before Calls() was invoked is in the returned list", fmt.Sprintf("%d calls %s had returned before the read invoked at event %d, which lists %d", n, short(t, 200), h.call, seen[t])}
			}
		}
	}
	return nil
}

func describeHist(hs []histOp) string {
	var b strings.Builder
	for _, h := range hs {
		switch h.kind {
		case "call":
			fmt.Fprintf(&b, "[t%d %d-%d call %s] ", h.task, h.call, h.rt, short(h.tuple, 60))
		case "calls":
			fmt.Fprintf(&b, "[t%d %d-%d calls→%d records] ", h.task, h.call, h.rt, len(h.list))
		default:
			fmt.Fprintf(&b, "[t%d %d-%d reset] ", h.task, h.call, h.rt)
		}
	}
	return short(b.String(), 1200)
}
