package checks

import (
	"encoding/json"
	"fmt"
	"os"
	"path/filepath"
	"reflect"
	"sort"
	"strings"
	"time"

	"verif/sim/core"
	"verif/sim/world"
)

// ---------------------------------------------------------------------------------------------
// C15 — name and import allocators offered to templates never produce collisions.
//
// Seeded call histories of AllocateName / SuggestName / AddName / NameExists on the scopes of
// two methods with identical signatures (the second one gets extra SuggestName calls) and of
// AddImport / Imports / PkgQualifier on the file registry, executed (a) in bulk by a driver
// linked against the instrumented template package and (b) end to end by generated probe
// templates inside real mockery runs — each under asc, desc and random iteration orders —
// and judged by a set model.

type c15Op struct {
	T     string `json:"t"`
	Scope int    `json:"s,omitempty"`
	A     string `json:"a,omitempty"`
	B     string `json:"b,omitempty"`
	Base  int    `json:"base,omitempty"` // index of the twin base op (1-based; 0 = none)
}

type c15Res struct {
	S   string      `json:"s,omitempty"`
	B   bool        `json:"b,omitempty"`
	L   [][2]string `json:"l,omitempty"`
	Err string      `json:"err,omitempty"`
}

type c15History struct {
	Methods [2]string `json:"methods"`
	Ops     []c15Op   `json:"ops"`
}

type c15Out struct {
	Params  [2][]string `json:"params"`
	Initial [][2]string `json:"initial"`
	Res     []c15Res    `json:"res"`
}

type c15Case struct {
	Mode      string       `json:"mode"` // lib | probe
	Histories []c15History `json:"histories"`
	Seed      uint64       `json:"seed"`
}

const c15CorpusPkg = c09Mod + "/alloc"

func c15Corpus() *world.Project {
	src := `package alloc

import (
	"context"
	htmpl "html/template"
	"io"
	"net/http"
	"text/template"

	xio "example.com/w/other/io"
)

// Alloc has pairs of methods with identical signatures, so that two scopes with the same
// initial state exist.
type Alloc interface {
	A1(ctx context.Context, s string, r io.Reader) (n int, err error)
	A2(ctx context.Context, s string, r io.Reader) (n int, err error)
	B1(t *template.Template, h *htmpl.Template) error
	B2(t *template.Template, h *htmpl.Template) error
	C1(io string, ret int, s1 bool, template0 xio.Thing) (s string)
	C2(io string, ret int, s1 bool, template0 xio.Thing) (s string)
	D1()
	D2()
	E1(string, int, http.Header, io.Writer) (bool, error)
	E2(string, int, http.Header, io.Writer) (bool, error)
	F1(http int, context string, x, x1, x2 float64) (template string)
	F2(http int, context string, x, x1, x2 float64) (template string)
}
`
	p := &world.Project{Module: c09Mod, Aux: map[string]string{
		"alloc/alloc.go":    src,
		"other/io/thing.go": "package io\n\ntype Thing struct{ N int }\n",
	}, NoConfig: true}
	return p
}

var c15Twins = [][2]string{{"A1", "A2"}, {"B1", "B2"}, {"C1", "C2"}, {"D1", "D2"}, {"E1", "E2"}, {"F1", "F2"}}

var c15Prefixes = []string{"s", "s1", "io", "ret", "x", "x1", "ctx", "err", "n", "template", "template0", "http", "val", "_m", "a", "a1", "a10", "context", "xio", "htmpl", "r", "t", "h", "b", "e", "_", ""}

// path → package name (a path has one package name)
var c15ImportPool = [][2]string{
	{"a/io", "io"}, {"b/io", "io"}, {"c/io0", "io0"}, {"d/io1", "io1"}, {"x/template", "template"}, {"y/template", "template"}, {"z/template0", "template0"},
	{"crypto/sha1", "sha1"}, {"p/sha", "sha"}, {"q/sha", "sha"}, {"r/sha", "sha"}, {"k/sha0", "sha0"}, {"m/http", "http"}, {"fmt", "fmt"}, {"io", "io"}, {"net/http", "http"},
	{"text/template", "template"}, {"e/xio", "xio"}, {"f/htmpl", "htmpl"}, {"g/context", "context"}, {"h/fmt", "fmt"}, {"i/fmt", "fmt"}, {"j/fmt0", "fmt0"},
	// paths with structure a registry might be tempted to interpret: vendored copies next to the
	// real package, major-version and gopkg.in suffixes, a name that is not the last element,
	// internal directories, case variants
	{"example.com/app/vendor/github.com/x/y", "y"}, {"github.com/x/y", "y"}, {"vendor/golang.org/x/net/http2", "http2"}, {"golang.org/x/net/http2", "http2"},
	{"gopkg.in/yaml.v3", "yaml"}, {"example.com/yaml", "yaml"}, {"github.com/x/go-y", "y"}, {"example.com/internal/y", "y"}, {"example.com/Y", "y"}, {"example.com/y/v2", "y"}, {"example.com/y", "y"},
	// package names that are not identifiers (a caller may pass the last path element), that are
	// keywords, or that collide only after being made into identifiers
	{"n/yaml.v3", "yaml.v3"}, {"o/yaml.v3", "yaml.v3"}, {"n/yaml_v3", "yaml_v3"}, {"n/go-cmp", "go-cmp"}, {"o/go-cmp", "go-cmp"}, {"o/go_cmp", "go_cmp"}, {"n/go", "go"}, {"o/go", "go"}, {"n/_go", "_go"},
	{"n/type", "type"}, {"o/type", "type"}, {"n/2fa", "2fa"}, {"n/_2fa", "_2fa"}, {"n/ünï", "ünï"},
}

func c15Name(r *core.Rng) string {
	p := core.Pick(r, c15Prefixes)
	switch r.Intn(5) {
	case 0:
		return p + fmt.Sprint(r.Intn(4))
	case 1:
		return p + fmt.Sprint(r.Range(8, 12))
	}
	return p
}

func c15GenHistory(r *core.Rng, probe bool) c15History {
	h := c15History{Methods: core.Pick(r, c15Twins)}
	if r.Bool() {
		h.Methods[0], h.Methods[1] = h.Methods[1], h.Methods[0]
	}
	// learn the initial visible names among a sample of the pool
	for _, p := range c15Prefixes {
		if r.Chance(2, 3) {
			h.Ops = append(h.Ops, c15Op{T: "exists", Scope: 0, A: p}, c15Op{T: "exists", Scope: 1, A: p})
		}
	}
	n := r.Range(5, 60)
	// swarm: some histories hammer one prefix (suffix allocation bugs need ≥ 10 allocations)
	hot := ""
	if r.Chance(1, 3) {
		hot = core.Pick(r, c15Prefixes)
	}
	veryHot := false
	if !probe && r.Chance(1, 25) {
		// past the step to three-digit suffixes: > 100 allocations of one prefix in one scope
		hot = core.Pick(r, c15Prefixes)
		n = r.Range(120, 150)
		veryHot = true
	}
	base := 0
	added := []string{}
	for i := 0; i < n; i++ {
		k := r.Intn(10)
		if veryHot && k >= 6 && r.Chance(4, 5) {
			k = 0
		}
		switch {
		case k < 6: // scope op, mirrored on both scopes; extra suggests only on scope 1
			for j := r.Intn(3); j > 0; j-- {
				h.Ops = append(h.Ops, c15Op{T: "suggest", Scope: 1, A: c15Name(r)})
			}
			base++
			var op c15Op
			nm := c15Name(r)
			if hot != "" && r.Chance(2, 3) {
				nm = hot
			}
			x := r.Intn(10)
			if veryHot && r.Chance(9, 10) {
				nm, x = hot, 0
			}
			switch {
			case x < 6:
				op = c15Op{T: "alloc", A: nm}
			case x < 8 && !probe:
				op = c15Op{T: "add", A: nm}
			case x < 8:
				op = c15Op{T: "alloc", A: nm}
			case x == 9 && !probe && r.Chance(1, 2):
				// the generator's own pass over the variables, run again after names were allocated and
				// imports added (a public method: a library user may call it at any time)
				op = c15Op{T: "resolve"}
			default:
				op = c15Op{T: "exists", A: nm}
			}
			op.Base = base
			o0, o1 := op, op
			o0.Scope, o1.Scope = 0, 1
			if hot != "" && r.Chance(1, 3) {
				h.Ops = append(h.Ops, c15Op{T: "suggest", Scope: 1, A: hot})
			}
			h.Ops = append(h.Ops, o0, o1)
		case k < 8:
			im := core.Pick(r, c15ImportPool)
			h.Ops = append(h.Ops, c15Op{T: "addimport", A: im[1], B: im[0]})
			added = append(added, im[0])
		case k < 9:
			h.Ops = append(h.Ops, c15Op{T: "imports"})
		default:
			if len(added) > 0 {
				h.Ops = append(h.Ops, c15Op{T: "pkgq", A: core.Pick(r, added)})
			}
		}
	}
	h.Ops = append(h.Ops, c15Op{T: "imports"})
	return h
}

type c15Violation struct {
	Clause, Site, Trigger, Expected, Observed string
}

// c15Oracle judges one executed history with a set model.
func c15Oracle(h c15History, o c15Out) *c15Violation {
	if len(o.Res) != len(h.Ops) {
		return &c15Violation{"harness", "result-count", "", fmt.Sprint(len(h.Ops)), fmt.Sprint(len(o.Res))}
	}
	known := [2]map[string]bool{{}, {}}
	for k := 0; k < 2; k++ {
		for _, p := range o.Params[k] {
			known[k][p] = true
		}
	}
	imp := map[string]string{}
	quals := map[string]string{}
	for _, pq := range o.Initial {
		imp[pq[0]] = pq[1]
		if other, dup := quals[pq[1]]; dup {
			return &c15Violation{"import-qualifier-shared", "initial", "", "distinct qualifiers for distinct paths", fmt.Sprintf("%s and %s both use %q", other, pq[0], pq[1])}
		}
		quals[pq[1]] = pq[0]
	}
	baseRes := map[int]c15Res{}
	allocCount := map[string]int{}
	for i, op := range h.Ops {
		r := o.Res[i]
		at := func(s string) string {
			return fmt.Sprintf("%s (op %d: %s %q %q on scope %d)", s, i, op.T, op.A, op.B, op.Scope)
		}
		switch op.T {
		case "alloc":
			allocCount[op.A]++
			trig := fmt.Sprintf("allocation #%d of a prefix", min(allocCount[op.A]/2+1, 12))
			if known[op.Scope][r.S] {
				return &c15Violation{"allocated-name-collides", "AllocateName", trig, "a name different from every name visible or allocated before in the scope", at(fmt.Sprintf("returned %q, which is already taken", r.S))}
			}
			known[op.Scope][r.S] = true
		case "add":
			known[op.Scope][op.A] = true
		case "exists":
			if known[op.Scope][op.A] && !r.B {
				return &c15Violation{"name-stopped-existing", "NameExists", "", "a name reported as existing (or allocated/added) stays existing", at("false")}
			}
			if r.B {
				known[op.Scope][op.A] = true
			}
		case "suggest", "resolve":
		case "addimport":
			q := r.S
			if prev, ok := imp[op.B]; ok {
				if q != prev {
					return &c15Violation{"import-qualifier-changed", "AddImport", "same path added again", "the same qualifier for the same path every time: " + prev, at(fmt.Sprintf("returned %q", q))}
				}
				break
			}
			if other, taken := quals[q]; taken {
				return &c15Violation{"import-qualifier-shared", "AddImport", c15QualTrigger(q, op.A), "a qualifier no other import uses", at(fmt.Sprintf("returned %q, already the qualifier of %s", q, other))}
			}
			if q == "" {
				return &c15Violation{"import-qualifier-empty", "AddImport", "", "a qualifier", at("empty")}
			}
			imp[op.B] = q
			quals[q] = op.B
		case "imports":
			seen := map[string]bool{}
			for j, pq := range r.L {
				if j > 0 && !(r.L[j-1][0] < pq[0]) {
					return &c15Violation{"imports-not-sorted-by-path", "Imports", "", "strictly ascending paths", at(fmt.Sprintf("%v", r.L))}
				}
				if seen[pq[0]] {
					return &c15Violation{"imports-duplicate-path", "Imports", "", "each path once", at(fmt.Sprintf("%v", r.L))}
				}
				seen[pq[0]] = true
				if want, ok := imp[pq[0]]; !ok || want != pq[1] {
					return &c15Violation{"imports-entry-unexpected", "Imports", "", fmt.Sprintf("path %s with qualifier %q", pq[0], want), at(fmt.Sprintf("%v", pq))}
				}
			}
			for p := range imp {
				if !seen[p] {
					return &c15Violation{"imports-missing-path", "Imports", "", "every added path: " + p, at(fmt.Sprintf("%v", r.L))}
				}
			}
		case "pkgq":
			if want, ok := imp[op.A]; ok && (r.Err != "" || r.S != want) {
				return &c15Violation{"pkgqualifier-differs", "PkgQualifier", "", fmt.Sprintf("%q", want), at(fmt.Sprintf("%q err=%q", r.S, r.Err))}
			}
		}
		if op.Base > 0 && op.T != "add" {
			if op.Scope == 0 {
				baseRes[op.Base] = r
			} else if b, ok := baseRes[op.Base]; ok && !reflect.DeepEqual(b, r) {
				return &c15Violation{"suggestion-had-an-effect", "SuggestName", "", fmt.Sprintf("the same result as on the twin scope without suggestions: %+v", b), at(fmt.Sprintf("%+v", r))}
			}
		}
	}
	return nil
}

func c15QualTrigger(q, name string) string {
	if q == name {
		return "package name equals an existing qualifier/alias"
	}
	return "generated alias equals an existing qualifier"
}

type c15Env struct {
	corpusRoot string
	driver     string
}

var c15env c15Env

func c15Prepare(c *core.Ctx) {
	c.PrepareRepo(true)
	// library driver, built inside the instrumented copy
	dd := filepath.Join(c.RepoCopy, "internal", "verifsim", "c15driver")
	os.MkdirAll(dd, 0o755)
	src, err := os.ReadFile(filepath.Join(c.VerifDir, "sim", "c15driver", "main.go.src"))
	if err != nil {
		core.Troublef("c15driver source: %v", err)
	}
	os.WriteFile(filepath.Join(dd, "main.go"), src, 0o644)
	c15env.driver = filepath.Join(c.Scratch, "bin", "c15driver")
	r := core.RunCmd(c.RepoCopy, core.GoEnv(), 10*time.Minute, "go", "build", "-trimpath", "-tags", "verif", "-o", c15env.driver, "./internal/verifsim/c15driver")
	if r.Exit != 0 {
		core.Troublef("building c15driver failed:\n%s\n%s", r.Stdout, r.Stderr)
	}
	c15env.corpusRoot = filepath.Join(c.Scratch, "c15corpus")
	if err := c15Corpus().Tree().Materialise(c15env.corpusRoot); err != nil {
		core.Troublef("corpus: %v", err)
	}
}

func c15RunLib(c *core.Ctx, hs []c15History, policy string, seed uint64, id string) ([]c15Out, string) {
	dir := filepath.Join(c.Scratch, "c15", id+"-"+policy)
	os.MkdirAll(dir, 0o755)
	defer os.RemoveAll(dir)
	in := map[string]any{"dir": c15env.corpusRoot, "pkg": c15CorpusPkg, "iface": "Alloc", "dst_pkg": c09Mod + "/mocks", "histories": hs}
	b, _ := json.Marshal(in)
	inP, outP, planP := filepath.Join(dir, "in.json"), filepath.Join(dir, "out.json"), filepath.Join(dir, "plan.json")
	os.WriteFile(inP, b, 0o644)
	pb, _ := json.Marshal(world.Plan(policy, seed, 1, 2020, 99))
	os.WriteFile(planP, pb, 0o644)
	r := core.RunCmd(c15env.corpusRoot, core.GoEnv("VERIF_PLAN="+planP), 5*time.Minute, c15env.driver, inP, outP)
	if r.Exit != 0 || r.TimedOut {
		if strings.Contains(r.Stderr, "panic:") || strings.Contains(r.Stderr, "goroutine ") {
			return nil, "PANIC:" + tail(r.Stderr, 1500)
		}
		return nil, fmt.Sprintf("c15driver exit %d: %s", r.Exit, tail(r.Stderr, 600))
	}
	ob, err := os.ReadFile(outP)
	if err != nil {
		return nil, err.Error()
	}
	var outs []c15Out
	if err := json.Unmarshal(ob, &outs); err != nil {
		return nil, err.Error()
	}
	return outs, ""
}

// c15ProbeTemplate renders a history as a mockery template that performs it and prints one
// JSON object per line.
func c15ProbeTemplate(h c15History) string {
	var b strings.Builder
	b.WriteString("{{- $i := index .Interfaces 0 -}}{{- $s0 := 0 -}}{{- $s1 := 0 -}}\n")
	b.WriteString("{{- range $m := $i.Methods -}}\n")
	for k := 0; k < 2; k++ {
		fmt.Fprintf(&b, "{{- if eq $m.Name %q -}}{{- $s%d = $m.Scope -}}{{range $m.Params}}{\"p%d\":\"{{.Var.Name}}\"}\n{{end}}{{range $m.Returns}}{\"p%d\":\"{{.Var.Name}}\"}\n{{end}}{{- end -}}\n", h.Methods[k], k, k, k)
	}
	b.WriteString("{{- end -}}\n")
	b.WriteString("{{range $.Registry.Imports}}{\"init\":[\"{{.Path}}\",\"{{.Qualifier}}\"]}\n{{end}}")
	for _, op := range h.Ops {
		sc := fmt.Sprintf("$s%d", op.Scope)
		switch op.T {
		case "alloc":
			fmt.Fprintf(&b, "{\"s\":\"{{%s.AllocateName %q}}\"}\n", sc, op.A)
		case "suggest":
			fmt.Fprintf(&b, "{\"s\":\"{{%s.SuggestName %q}}\"}\n", sc, op.A)
		case "exists":
			fmt.Fprintf(&b, "{\"b\":{{%s.NameExists %q}}}\n", sc, op.A)
		case "addimport":
			fmt.Fprintf(&b, "{\"s\":\"{{($.Registry.AddImport %q %q).Qualifier}}\"}\n", op.A, op.B)
		case "imports":
			b.WriteString("{\"l\":[{{range $k, $p := $.Registry.Imports}}{{if $k}},{{end}}[\"{{$p.Path}}\",\"{{$p.Qualifier}}\"]{{end}}]}\n")
		case "pkgq":
			fmt.Fprintf(&b, "{\"s\":\"{{$.Registry.Imports.PkgQualifier %q}}\"}\n", op.A)
		}
	}
	return b.String()
}

func c15RunProbe(c *core.Ctx, h c15History, policy string, seed uint64, id string) (c15Out, string, string) {
	var out c15Out
	p := c15Corpus()
	p.NoConfig = false
	cfg := world.NewY()
	cfg.Set("template", "file://"+world.RootPlaceholder+"/probe.templ").Set("formatter", "noop").Set("require-template-schema-exists", false)
	cfg.Set("dir", "mocks").Set("filename", "probe_out.txt").Set("pkgname", "mocks")
	cfg.Sub("packages").Sub(c15CorpusPkg).Sub("interfaces").Set("Alloc", world.NewY())
	p.Config = cfg
	p.Aux["probe.templ"] = c15ProbeTemplate(h)
	base := filepath.Join(c.Scratch, "w", id+"-"+policy)
	root := filepath.Join(base, "root")
	defer world.RemoveAll(base)
	if err := p.Tree().Materialise(root); err != nil {
		return out, err.Error(), ""
	}
	res := world.Run(c.Bin, root, base, world.Step{Plan: world.Plan(policy, seed, 1, 2021, 77)}, 90*time.Second)
	if res.Panicked() {
		return out, "PANIC:" + tail(res.Stderr, 1500), res.OrderVector()
	}
	if res.Exit != 0 {
		return out, fmt.Sprintf("mockery exit %d on a probe template: %s", res.Exit, tail(res.Stderr, 600)), res.OrderVector()
	}
	b, err := os.ReadFile(filepath.Join(root, "mocks", "probe_out.txt"))
	if err != nil {
		return out, err.Error(), res.OrderVector()
	}
	for _, line := range strings.Split(string(b), "\n") {
		line = strings.TrimSpace(line)
		if line == "" {
			continue
		}
		var m struct {
			P0   *string     `json:"p0"`
			P1   *string     `json:"p1"`
			Init *[2]string  `json:"init"`
			S    *string     `json:"s"`
			B    *bool       `json:"b"`
			L    [][2]string `json:"l"`
		}
		if err := json.Unmarshal([]byte(line), &m); err != nil {
			return out, "probe output line not JSON: " + line, res.OrderVector()
		}
		switch {
		case m.P0 != nil:
			out.Params[0] = append(out.Params[0], *m.P0)
		case m.P1 != nil:
			out.Params[1] = append(out.Params[1], *m.P1)
		case m.Init != nil:
			out.Initial = append(out.Initial, *m.Init)
		case m.S != nil:
			out.Res = append(out.Res, c15Res{S: *m.S})
		case m.B != nil:
			out.Res = append(out.Res, c15Res{B: *m.B})
		default:
			out.Res = append(out.Res, c15Res{L: m.L})
		}
	}
	return out, "", res.OrderVector()
}

var c15Policies = []string{"asc", "desc", "random"}

func evalC15(c *core.Ctx, cs c15Case, id string) Outcome {
	out := Outcome{}
	var first [][]byte
	mk := func(v *c15Violation, hi int, mode string) Outcome {
		out.Sig = &core.Signature{Clause: v.Clause, Site: v.Site, Trigger: v.Trigger}
		out.Expected = v.Expected
		out.Observed = fmt.Sprintf("%s [history %d, driver %s, methods %v]", v.Observed, hi, mode, cs.Histories[hi].Methods)
		return out
	}
	for pi, pol := range c15Policies {
		var outs []c15Out
		if cs.Mode == "lib" {
			o, trouble := c15RunLib(c, cs.Histories, pol, cs.Seed+uint64(pi), id)
			if strings.HasPrefix(trouble, "PANIC:") {
				return mk(&c15Violation{"allocator-panic", "driver", "", "no panic", trouble}, 0, cs.Mode)
			}
			if trouble != "" {
				out.Trouble = trouble
				return out
			}
			outs = o
		} else {
			for hi, h := range cs.Histories {
				o, trouble, vec := c15RunProbe(c, h, pol, cs.Seed+uint64(pi), fmt.Sprintf("%s-%d", id, hi))
				if strings.HasPrefix(trouble, "PANIC:") {
					return mk(&c15Violation{"allocator-panic", "probe-template", "", "no panic", trouble}, hi, cs.Mode)
				}
				if trouble != "" {
					out.Trouble = trouble
					return out
				}
				outs = append(outs, o)
				out.Scheds = append(out.Scheds, vec)
			}
		}
		out.Runs += len(cs.Histories)
		for hi, h := range cs.Histories {
			if v := c15Oracle(h, outs[hi]); v != nil {
				if v.Clause == "harness" {
					out.Trouble = fmt.Sprintf("result count %s ≠ %s", v.Observed, v.Expected)
					return out
				}
				return mk(v, hi, cs.Mode)
			}
			b, _ := json.Marshal(outs[hi])
			if pi == 0 {
				first = append(first, b)
			} else if string(first[hi]) != string(b) {
				return mk(&c15Violation{"results-differ-across-iteration-orders", "order:" + pol, "", "identical results under every map-iteration order: " + tailStr(string(first[hi]), 300), tailStr(string(b), 300)}, hi, cs.Mode)
			}
			out.Steps += len(h.Ops)
		}
	}
	nt := 0
	for _, h := range cs.Histories {
		allocs := 0
		for _, op := range h.Ops {
			if op.T == "alloc" || op.T == "addimport" {
				allocs++
			}
		}
		if allocs >= 4 {
			nt++
		}
	}
	out.Nontrivial = nt > 0
	b, _ := json.Marshal(cs.Histories)
	out.Key = core.HashStr(string(b))
	out.Tags = append(out.Tags, "mode:"+cs.Mode)
	return out
}

func RunC15(c *core.Ctx) int {
	c15Prepare(c)
	libBatches, batchSize, probes := 60, 500, 150
	budget := 20 * time.Minute // quick: the case count is the contract, the clock only a watchdog
	if c.Tier == "thorough" {
		libBatches, batchSize, probes = 400, 1000, 1500
		budget = 28 * time.Minute
	}
	distinctHist := map[string]bool{}
	cp := &Campaign[c15Case]{C: c, Engine: "W", N: libBatches + probes, Budget: budget, MaxSamp: 2,
		Gen: func(i int) c15Case {
			if i < libBatches {
				cs := c15Case{Mode: "lib", Seed: core.Stream(c.Seed, "c15-sched", i).Uint64()}
				for k := 0; k < batchSize; k++ {
					cs.Histories = append(cs.Histories, c15GenHistory(core.Stream(c.Seed, "c15-lib", i, k), false))
				}
				return cs
			}
			return c15Case{Mode: "probe", Seed: core.Stream(c.Seed, "c15-sched", i).Uint64(), Histories: []c15History{c15GenHistory(core.Stream(c.Seed, "c15-probe", i), true)}}
		},
		Eval: func(cs c15Case, id string) Outcome {
			o := evalC15(c, cs, id)
			if o.Sample == nil && len(cs.Histories) > 0 {
				h := cs.Histories[0]
				var ops []string
				for _, op := range h.Ops {
					ops = append(ops, strings.TrimSpace(fmt.Sprintf("%s@%d %s %s", op.T, op.Scope, op.A, op.B)))
				}
				o.Sample = map[string]any{"driver": cs.Mode, "methods": h.Methods, "ops": ops, "histories_in_case": len(cs.Histories)}
			}
			return o
		},
		Shrink: func(cs c15Case, fails func(c15Case) bool, deadline time.Time) (c15Case, string) {
			n0 := len(cs.Histories)
			// 1. isolate one failing history
			if len(cs.Histories) > 1 {
				lo, hi := 0, len(cs.Histories)
				for hi-lo > 1 && time.Now().Before(deadline) {
					mid := (lo + hi) / 2
					cand := cs
					cand.Histories = cs.Histories[lo:mid]
					if fails(cand) {
						hi = mid
					} else {
						cand.Histories = cs.Histories[mid:hi]
						if fails(cand) {
							lo = mid
						} else {
							break
						}
					}
				}
				cand := cs
				cand.Histories = cs.Histories[lo:hi]
				if fails(cand) {
					cs = cand
				}
			}
			// 2. drop ops (twin pairs together)
			ops0 := 0
			if len(cs.Histories) == 1 {
				h := cs.Histories[0]
				ops0 = len(h.Ops)
				for i := len(h.Ops) - 1; i >= 0 && time.Now().Before(deadline); i-- {
					if i >= len(h.Ops) {
						continue
					}
					var nops []c15Op
					for j, op := range h.Ops {
						if j == i || (h.Ops[i].Base > 0 && op.Base == h.Ops[i].Base) {
							continue
						}
						nops = append(nops, op)
					}
					cand := cs
					cand.Histories = []c15History{{Methods: h.Methods, Ops: nops}}
					if len(nops) > 0 && fails(cand) {
						h = cand.Histories[0]
						cs = cand
					}
				}
				return cs, fmt.Sprintf("histories %d→1, ops %d→%d", n0, ops0, len(h.Ops))
			}
			return cs, fmt.Sprintf("histories %d→%d", n0, len(cs.Histories))
		},
	}
	_ = distinctHist
	res := cp.Run()
	rep := c.InstrReport()
	var sites []string
	for _, s := range rep.RangeSites {
		if strings.HasPrefix(s, "template/") {
			sites = append(sites, s)
		}
	}
	sort.Strings(sites)
	cov := map[string]any{
		"rule":                    "one evaluation = one call history (5–60 base operations plus probes) executed once under one iteration policy; every history is executed under asc, desc and random orders and the three result vectors must be identical; library-driver cases hold a batch of histories executed by one process; non-trivial = the case contains a history with ≥4 allocating calls; distinct = hash of the histories of a case",
		"drivers":                 []string{"lib: Go driver linked against the instrumented template package, scopes built as the generator builds them (AddVar per parameter/result, ResolveVariableNameCollisions)", "probe: generated file:// template executed inside a real mockery run"},
		"lib_batches":             libBatches,
		"histories_per_batch":     batchSize,
		"probe_histories":         probes,
		"instrumented_sites_used": sites,
		"twin_methods":            c15Twins,
		"components":              map[string]any{"real": []string{"template.Registry", "template.MethodScope", "mockery CLI (probe driver)", "text/template"}, "instrumented": []string{"map-range sites in template/ (NewMethodScope, Registry.Imports)"}, "stub": []string{}},
	}
	return res.Finish(c, "exploration", cov, []string{
		"the set model knows as visible: the method's (resolved) parameter names, every name NameExists reported true, every allocated or added name — import qualifiers the scope was never told about are not assumed visible",
		"AddName cannot be called from a template (no return value), so it occurs in library-driver histories only",
	}, "set model held")
}

func init() {
	Runners["C15"] = RunC15
	registerReplayer[c15Case]("C15", c15Prepare, evalC15)
}
