package checks

import (
	"encoding/json"
	"fmt"
	"os"
	"path/filepath"
	"regexp"
	"sort"
	"strings"
	"time"

	"verif/sim/core"
	"verif/sim/msim"
	"verif/sim/world"
)

// ---------------------------------------------------------------------------------------------
// Engine M orchestration: build mockery from the tree under test, generate mocks for a fixed
// interface corpus × option sets (each into its own package), instrument the generated files,
// build the reflection driver against them, and run it in shards.

const mMod = "example.com/msimrun"

const mCorpusSrc = `package corpus

import (
	"context"
	"io"
)

type Named interface{ Name() string }

type Point struct{ X, Y int }

type ID string

type IDs []string

type Table map[string]int

type Mapper func(int) string

type Pair [2]int

type AliasSlice = []int

type PP *Point

// Types covers named, aliased and nested type shapes (nillable detection, value routing).
type Types interface {
	NamedSlice(ids IDs) IDs
	NamedMap(t Table) (Table, error)
	NamedFunc(f Mapper) Mapper
	Arrays(p Pair, q [3]string) (Pair, [2]bool)
	Aliases(a AliasSlice) AliasSlice
	PtrPtr(p **Point) **Point
	NamedPtr(p PP) PP
	SliceOfIface(es []error, ns []Named) ([]error, []any)
	MapOfSlices(m map[string][]int) map[ID]*Point
	Struct3(a, b, c Point) (x, y Point)
	IfaceAndNil(r io.Reader, e error) (io.Reader, error, io.Reader)
	NamedResults(a int, b string) (n int, s string, err error)
	PtrToNamedPtr(p *PP) *PP
	AnonStruct(v struct {
		A int
		B []string
	}) struct{ X, Y float64 }
	TenResults(k int) (int, int, int, int, int, int, int, int, int, int, error)
}

// Prefixes: one method name is a prefix of another.
type Prefixes interface {
	G(k string) int
	Get(k string) string
	GetAll(k string) []string
	GetAllOf(k string, n int) ([]string, error)
}

// Deep inherits methods through two levels of embedding.
type Deep interface {
	Embeds
	Top(x string) (string, error)
}

type Basic interface {
	NoArgsNoRet()
	OneArg(s string)
	OneRet() int
	TwoSame(a, b int) int
	ThreeSame(a, b, c string) (string, string)
	ErrFirst(x int) (error, int)
	ErrOnly(p *Point) error
	Structs(p Point, id ID) (Point, ID)
	Unnamed(string, int, bool) (string, error)
	Blank(_ int, _ string) int
}

type Nillables interface {
	Bytes(b []byte) []byte
	Many(b []byte, m map[string]int, p *Point, e error, a any, n Named) ([]string, map[string]int, *Point, error, any, Named)
	Funcs(f func(int) string, g func(a, b string) bool) func(int) string
	Chans(c chan int, r <-chan string) <-chan struct{}
	Ifaces(r io.Reader, w io.Writer) (io.Closer, error)
	Ctx(ctx context.Context, req *Point) (*Point, error)
	TwoIfaces(a, b error) (error, error)
}

// Shadow has parameter names that coincide with identifiers the templates use internally.
type Shadow interface {
	Ok(ok bool, n int) (bool, int)
	Ret(ret int, run string, args []string) (string, error)
	Idx(i int, a string) string
}

type ShadowR interface {
	R0(r0 string, r1 int) (int, string)
}

type Twins interface {
	GetA(k string, n int) (string, error)
	GetB(k string, n int) (string, error)
	PutA(k string, v []byte) error
	PutB(k string, v []byte) error
}

type Embeds interface {
	Named
	io.Closer
	Extra(x int) int
}

type Gen[K comparable, V any] interface {
	Get(k K) (V, bool)
	Put(k K, v V) error
	Keys() []K
}

// a type parameter whose constraint is an inline union mixing a non-nillable and a nillable term,
// instantiated with the nillable one
type GenU[T ~string | ~[]byte] interface {
	Load(k string) (T, error)
	Echo(v T) T
	Many(vs ...T) (T, bool)
}

type VarOne interface {
	Ints(xs ...int) int
	Strs(prefix string, xs ...string) string
	Anys(format string, args ...any) string
	Errs(errs ...error) error
	Pts(n int, ps ...*Point) []int
}

type VarTwo interface {
	Strs2(prefix string, xs ...string) (string, error)
	Anys2(args ...any) (int, error)
}

type VarVoid interface {
	Log(format string, args ...any)
	Push(xs ...int)
	Tail(a, b int, rest ...string)
}
`

type mIface struct {
	Name     string // interface name in the corpus
	TypeArgs string // "" or "[string, int]"
}

var mIfaces = []mIface{{"Types", ""}, {"Prefixes", ""}, {"Deep", ""}, {"Basic", ""}, {"Nillables", ""}, {"Shadow", ""}, {"ShadowR", ""}, {"Twins", ""}, {"Embeds", ""}, {"Gen", "[string, int]"}, {"GenU", "[[]byte]"}, {"VarOne", ""}, {"VarTwo", ""}, {"VarVoid", ""}}

type mVariant struct {
	Name  string
	Style string
	Opts  map[string]bool // template-data; absent key = unset
	Level string          // "" = root-level template-data; "interface" = given in the interface's config only
}

var mVariants = []mVariant{
	{"testify-default", "testify", map[string]bool{}, ""},
	{"testify-unroll-false", "testify", map[string]bool{"unroll-variadic": false}, ""},
	{"testify-unroll-true", "testify", map[string]bool{"unroll-variadic": true}, ""},
	{"matryer-plain", "matryer", map[string]bool{}, ""},
	{"matryer-stub", "matryer", map[string]bool{"stub-impl": true}, ""},
	{"matryer-resets", "matryer", map[string]bool{"with-resets": true}, ""},
	{"matryer-stub-resets", "matryer", map[string]bool{"stub-impl": true, "with-resets": true}, ""},
	{"matryer-skipensure-resets", "matryer", map[string]bool{"skip-ensure": true, "with-resets": true}, ""},
	{"matryer-all", "matryer", map[string]bool{"skip-ensure": true, "stub-impl": true, "with-resets": true}, ""},
	// the same options given at the interface level only (they must resolve through the hierarchy)
	{"testify-unroll-true@iface", "testify", map[string]bool{"unroll-variadic": true}, "interface"},
	{"matryer-stub-resets@iface", "matryer", map[string]bool{"stub-impl": true, "with-resets": true}, "interface"},
	// the interface level says the opposite of the root level: the narrower level wins
	{"testify-unroll-false-over-true", "testify", map[string]bool{"unroll-variadic": false}, "override"},
	{"testify-unroll-true-over-false", "testify", map[string]bool{"unroll-variadic": true}, "override"},
	{"matryer-nostub-resets-over-opposite", "matryer", map[string]bool{"stub-impl": false, "with-resets": true}, "override"},
}

// mMate is a second interface generated into the same file as the unit's first one, with
// options of its own (given in its interface config).
type mMate struct {
	Iface       mIface
	VariantName string
	Opts        map[string]bool
}

// mCfg is one entry of an interface's `configs:` list: the same interface mocked once more into
// the same file under another struct name, with options of its own.
type mCfg struct {
	Struct      string
	VariantName string
	Opts        map[string]bool
}

type mUnit struct {
	Configs  []mCfg
	Src      string // source text of a seeded random interface ("" for the fixed corpus)
	Iface    mIface
	Variant  mVariant
	Mate     *mMate
	Pkg      string // package name and directory under gen/
	GenErr   string // generation failed (not a verdict of C03–C05)
	BuildErr string
}

type mEnv struct {
	dir         string
	driver      string
	units       []*mUnit
	rnd         []rndIface
	rndRejected string
	instr       []map[string]any
	genS        float64
}

var menv *mEnv

// mExtraSrc, when set before mPrepare (replay of a case on a seeded random interface), replaces the
// seed-derived random interfaces by exactly the ones named here.
var mExtraSrc []rndIface

func mRndCount(tier string) int {
	if tier == "thorough" {
		return 48
	}
	return 10
}

func mGoEnv() []string {
	return core.GoEnv("GOFLAGS=-mod=mod", "GOWORK=off", "GONOSUMDB=*", "GONOSUMCHECK=1", "GOSUMDB=off")
}

var pkgHeaderRe = regexp.MustCompile(`(?m)^# (\S+)`)

// mBuildGen builds all generated packages and returns the compiler output per failing package.
func mBuildGen(dir string) map[string]string {
	r := core.RunCmd(dir, mGoEnv(), 15*time.Minute, "go", "build", "./gen/...")
	fails := map[string]string{}
	if r.Exit == 0 {
		return fails
	}
	out := r.Stderr + r.Stdout
	idx := pkgHeaderRe.FindAllStringSubmatchIndex(out, -1)
	for i, m := range idx {
		end := len(out)
		if i+1 < len(idx) {
			end = idx[i+1][0]
		}
		pkg := out[m[2]:m[3]]
		fails[strings.TrimPrefix(pkg, mMod+"/gen/")] = strings.TrimSpace(out[m[1]:end])
	}
	if len(fails) == 0 {
		fails["?"] = tail(out, 2000)
	}
	return fails
}

func mPrepare(c *core.Ctx) {
	core.GuardDisk()
	if menv != nil {
		return
	}
	t0 := time.Now()
	c.PrepareRepo(true)
	e := &mEnv{dir: filepath.Join(c.Scratch, "msimrun")}
	os.MkdirAll(filepath.Join(e.dir, "corpus"), 0o755)
	// phase 1: a self-contained module (as the worlds of engine W) in which mockery runs
	os.WriteFile(filepath.Join(e.dir, "go.mod"), []byte(world.GoMod(mMod)), 0o644)
	os.WriteFile(filepath.Join(e.dir, "go.sum"), []byte(world.GoSum), 0o644)
	rnd := mExtraSrc
	if rnd == nil {
		rnd = mRandomIfaces(c.Seed, mRndCount(c.Tier))
	}
	os.WriteFile(filepath.Join(e.dir, "corpus", "corpus.go"), []byte(mCorpusWith(rnd)), 0o644)
	if r := core.RunCmd(e.dir, mGoEnv(), 10*time.Minute, "go", "build", "./corpus"); r.Exit != 0 {
		// the grammar emitted something that is not Go: the harness's fault, never a verdict; carry on
		// with the fixed library and say so
		fmt.Printf("NOTE: the seeded random interfaces do not compile and are left out: %s\n", tailStr(r.Stderr+r.Stdout, 400))
		e.rndRejected = tailStr(r.Stderr+r.Stdout, 400)
		if mExtraSrc != nil {
			core.Troublef("the interface of the replayed case does not compile: %s", e.rndRejected)
		}
		rnd = nil
		os.WriteFile(filepath.Join(e.dir, "corpus", "corpus.go"), []byte(mCorpusWith(nil)), 0o644)
	}
	e.rnd = rnd
	for _, v := range mVariants {
		for _, ifc := range mIfaces {
			u := &mUnit{Iface: ifc, Variant: v, Pkg: strings.NewReplacer("-", "_", "@", "_at_").Replace(v.Name) + "_" + strings.ToLower(ifc.Name)}
			e.units = append(e.units, u)
		}
	}
	for _, v := range mVariants {
		if !mRndVariants[v.Name] {
			continue
		}
		for _, ri := range rnd {
			e.units = append(e.units, &mUnit{Src: ri.Src, Iface: mIface{ri.Name, ""}, Variant: v, Pkg: strings.NewReplacer("-", "_", "@", "_at_").Replace(v.Name) + "_" + strings.ToLower(ri.Name)})
		}
	}
	// two mocks in one output file, with different effective options
	pairs := []*mUnit{
		{Iface: mIface{"Twins", ""}, Variant: mVariant{"testify-pair-first", "testify", map[string]bool{}, ""}, Mate: &mMate{mIface{"VarOne", ""}, "testify-pair-second-unroll-true", map[string]bool{"unroll-variadic": true}}},
		{Iface: mIface{"VarOne", ""}, Variant: mVariant{"testify-pair-first-unroll-true@iface", "testify", map[string]bool{"unroll-variadic": true}, "interface"}, Mate: &mMate{mIface{"VarTwo", ""}, "testify-pair-second-default", map[string]bool{}}},
		{Iface: mIface{"Embeds", ""}, Variant: mVariant{"matryer-pair-first", "matryer", map[string]bool{}, ""}, Mate: &mMate{mIface{"Basic", ""}, "matryer-pair-second-stub-resets", map[string]bool{"stub-impl": true, "with-resets": true}}},
		{Iface: mIface{"Basic", ""}, Variant: mVariant{"matryer-pair-first-stub@iface", "matryer", map[string]bool{"stub-impl": true}, "interface"}, Mate: &mMate{mIface{"Twins", ""}, "matryer-pair-second-plain", map[string]bool{}}},
	}
	// one interface mocked several times into one file through its configs list, every entry with
	// template-data of its own
	pairs = append(pairs,
		&mUnit{Iface: mIface{"VarOne", ""}, Variant: mVariant{"testify-configs", "testify", map[string]bool{}, ""}, Configs: []mCfg{
			{"MockVarOneA", "testify-configs-1-unroll-true", map[string]bool{"unroll-variadic": true}},
			{"MockVarOneB", "testify-configs-2-default", map[string]bool{}}}},
		&mUnit{Iface: mIface{"VarTwo", ""}, Variant: mVariant{"testify-configs", "testify", map[string]bool{}, ""}, Configs: []mCfg{
			{"MockVarTwoA", "testify-configs-1-default", map[string]bool{}},
			{"MockVarTwoB", "testify-configs-2-unroll-true", map[string]bool{"unroll-variadic": true}},
			{"MockVarTwoC", "testify-configs-3-unroll-false", map[string]bool{"unroll-variadic": false}}}},
		&mUnit{Iface: mIface{"Basic", ""}, Variant: mVariant{"matryer-configs", "matryer", map[string]bool{}, ""}, Configs: []mCfg{
			{"MockBasicA", "matryer-configs-1-stub", map[string]bool{"stub-impl": true}},
			{"MockBasicB", "matryer-configs-2-plain", map[string]bool{}},
			{"MockBasicC", "matryer-configs-3-resets", map[string]bool{"with-resets": true}}}},
	)
	for _, u := range pairs {
		u.Pkg = strings.NewReplacer("-", "_", "@", "_at_").Replace(u.Variant.Name) + "_" + strings.ToLower(u.Iface.Name)
		e.units = append(e.units, u)
	}
	core.ParallelMap(c.Jobs, len(e.units), func(i int) int {
		u := e.units[i]
		cfg := world.NewY()
		cfg.Set("template", u.Variant.Style).Set("formatter", "goimports").Set("force-file-write", true)
		cfg.Set("dir", "gen/"+u.Pkg).Set("filename", "mocks.go").Set("pkgname", u.Pkg)
		ic := world.NewY()
		if len(u.Variant.Opts) > 0 {
			td := world.NewY()
			for _, k := range core.SortedKeys(u.Variant.Opts) {
				td.Set(k, u.Variant.Opts[k])
			}
			switch u.Variant.Level {
			case "interface":
				ic.Sub("config").Set("template-data", td)
			case "override":
				ic.Sub("config").Set("template-data", td)
				neg := world.NewY()
				for _, k := range core.SortedKeys(u.Variant.Opts) {
					neg.Set(k, !u.Variant.Opts[k])
				}
				cfg.Set("template-data", neg)
			default:
				cfg.Set("template-data", td)
			}
		}
		if len(u.Configs) > 0 {
			var list []any
			for _, ce := range u.Configs {
				ey := world.NewY().Set("structname", ce.Struct)
				if len(ce.Opts) > 0 {
					td := world.NewY()
					for _, k := range core.SortedKeys(ce.Opts) {
						td.Set(k, ce.Opts[k])
					}
					ey.Set("template-data", td)
				}
				list = append(list, ey)
			}
			ic.Set("configs", list)
		}
		cfg.Sub("packages").Sub(mMod+"/corpus").Sub("interfaces").Set(u.Iface.Name, ic)
		if u.Mate != nil {
			mc := world.NewY()
			if len(u.Mate.Opts) > 0 {
				td := world.NewY()
				for _, k := range core.SortedKeys(u.Mate.Opts) {
					td.Set(k, u.Mate.Opts[k])
				}
				mc.Sub("config").Set("template-data", td)
			}
			cfg.Sub("packages").Sub(mMod+"/corpus").Sub("interfaces").Set(u.Mate.Iface.Name, mc)
		}
		cfgPath := filepath.Join(e.dir, "cfg-"+u.Pkg+".yml")
		os.WriteFile(cfgPath, []byte(cfg.String()), 0o644)
		st := world.Step{Args: []string{"--config", cfgPath}, Plan: world.Plan("asc", 1, 0, 2022, 4242)}
		res := world.Run(c.Bin, e.dir, e.dir, st, 120*time.Second)
		os.Remove(cfgPath)
		if res.Exit != 0 {
			u.GenErr = fmt.Sprintf("exit %d: %s", res.Exit, tail(res.Stderr, 400))
			os.RemoveAll(filepath.Join(e.dir, "gen", u.Pkg))
		}
		return 0
	})
	// phase 2: the driver module (adds the framework and porcupine)
	vsum, _ := os.ReadFile(filepath.Join(c.VerifDir, "go.sum"))
	gomod := "module " + mMod + "\n\ngo 1.23\n\nrequire (\n\tverif v0.0.0\n\tgithub.com/stretchr/testify v1.10.0\n)\n\nreplace verif => " + c.VerifDir + "\n"
	os.WriteFile(filepath.Join(e.dir, "go.mod"), []byte(gomod), 0o644)
	os.WriteFile(filepath.Join(e.dir, "go.sum"), append([]byte(world.GoSum), vsum...), 0o644)
	if r := core.RunCmd(e.dir, mGoEnv(), 10*time.Minute, "go", "mod", "tidy"); r.Exit != 0 {
		// tidy needs a main package importing verif; fall through, the build decides
		_ = r
	}
	// compile un-instrumented first: what fails here is a C01 matter, counted and skipped
	for pkg, msg := range mBuildGen(e.dir) {
		found := false
		for _, u := range e.units {
			if u.Pkg == pkg {
				u.BuildErr = msg
				found = true
				os.RemoveAll(filepath.Join(e.dir, "gen", pkg))
			}
		}
		if !found {
			core.Troublef("engine M: cannot build generated packages: %s: %s", pkg, msg)
		}
	}
	// instrument the generated files of the packages that compile
	var files []string
	for _, u := range e.units {
		if u.GenErr == "" && u.BuildErr == "" {
			files = append(files, filepath.Join(e.dir, "gen", u.Pkg, "mocks.go"))
		}
	}
	if len(files) == 0 {
		core.Troublef("engine M: no generated mock compiles; nothing can be explored")
	}
	repPath := filepath.Join(e.dir, "instr.json")
	if r := core.RunCmd(e.dir, os.Environ(), 5*time.Minute, filepath.Join(c.VerifDir, "bin", "verif-mockinstr"), append([]string{"-report", repPath}, files...)...); r.Exit != 0 {
		core.Troublef("instrumenting generated mocks failed: %s", r.Stderr)
	}
	if b, err := os.ReadFile(repPath); err == nil {
		json.Unmarshal(b, &e.instr)
	}
	// registration file
	var b strings.Builder
	b.WriteString("package main\n\nimport (\n\t\"reflect\"\n\n\t\"verif/sim/msim\"\n\tcorpus \"" + mMod + "/corpus\"\n")
	for _, u := range e.units {
		if u.GenErr == "" && u.BuildErr == "" {
			fmt.Fprintf(&b, "\t%s \"%s/gen/%s\"\n", u.Pkg, mMod, u.Pkg)
		}
	}
	b.WriteString(")\n\nfunc main() {\n\tmsim.Main([]msim.Registration{\n")
	for _, u := range e.units {
		if u.GenErr != "" || u.BuildErr != "" {
			continue
		}
		if len(u.Configs) > 0 {
			for _, ce := range u.Configs {
				copts := "map[string]bool{"
				for _, k := range core.SortedKeys(ce.Opts) {
					copts += fmt.Sprintf("%q: %v, ", k, ce.Opts[k])
				}
				copts += "}"
				cnew := fmt.Sprintf("func(t *msim.RecT) any { return &%s.%s{} }", u.Pkg, ce.Struct)
				if u.Variant.Style == "testify" {
					cnew = fmt.Sprintf("func(t *msim.RecT) any { return %s.New%s(t) }", u.Pkg, ce.Struct)
				}
				fmt.Fprintf(&b, "\t\t{Variant: %q, Style: %q, Opts: %s, Iface: %q, IfaceType: reflect.TypeOf((*corpus.%s)(nil)).Elem(), New: %s},\n",
					ce.VariantName, u.Variant.Style, copts, u.Iface.Name, u.Iface.Name, cnew)
			}
			continue
		}
		opts := "map[string]bool{"
		for _, k := range core.SortedKeys(u.Variant.Opts) {
			opts += fmt.Sprintf("%q: %v, ", k, u.Variant.Opts[k])
		}
		opts += "}"
		newExpr := fmt.Sprintf("func(t *msim.RecT) any { return &%s.Mock%s%s{} }", u.Pkg, u.Iface.Name, u.Iface.TypeArgs)
		if u.Variant.Style == "testify" {
			newExpr = fmt.Sprintf("func(t *msim.RecT) any { return %s.NewMock%s%s(t) }", u.Pkg, u.Iface.Name, u.Iface.TypeArgs)
		}
		fmt.Fprintf(&b, "\t\t{Variant: %q, Style: %q, Opts: %s, Iface: %q, IfaceType: reflect.TypeOf((*corpus.%s%s)(nil)).Elem(), New: %s, Src: %q},\n",
			u.Variant.Name, u.Variant.Style, opts, u.Iface.Name, u.Iface.Name, u.Iface.TypeArgs, newExpr, u.Src)
		if u.Mate != nil {
			mopts := "map[string]bool{"
			for _, k := range core.SortedKeys(u.Mate.Opts) {
				mopts += fmt.Sprintf("%q: %v, ", k, u.Mate.Opts[k])
			}
			mopts += "}"
			mnew := fmt.Sprintf("func(t *msim.RecT) any { return &%s.Mock%s%s{} }", u.Pkg, u.Mate.Iface.Name, u.Mate.Iface.TypeArgs)
			if u.Variant.Style == "testify" {
				mnew = fmt.Sprintf("func(t *msim.RecT) any { return %s.NewMock%s%s(t) }", u.Pkg, u.Mate.Iface.Name, u.Mate.Iface.TypeArgs)
			}
			fmt.Fprintf(&b, "\t\t{Variant: %q, Style: %q, Opts: %s, Iface: %q, IfaceType: reflect.TypeOf((*corpus.%s%s)(nil)).Elem(), New: %s},\n",
				u.Mate.VariantName, u.Variant.Style, mopts, u.Mate.Iface.Name, u.Mate.Iface.Name, u.Mate.Iface.TypeArgs, mnew)
		}
	}
	b.WriteString("\t})\n}\n")
	os.WriteFile(filepath.Join(e.dir, "main.go"), []byte(b.String()), 0o644)
	e.driver = filepath.Join(c.Scratch, "bin", "msim-driver")
	if r := core.RunCmd(e.dir, mGoEnv(), 15*time.Minute, "go", "build", "-o", e.driver, "."); r.Exit != 0 {
		core.Troublef("building the engine-M driver (instrumented generated mocks + framework) failed:\n%s", tail(r.Stderr+r.Stdout, 3000))
	}
	e.genS = time.Since(t0).Seconds()
	menv = e
}

func mRunDriver(c *core.Ctx, in msim.Input, id string) (*msim.Output, string) {
	dir := filepath.Join(c.Scratch, "mrun")
	os.MkdirAll(dir, 0o755)
	inP, outP := filepath.Join(dir, id+"-in.json"), filepath.Join(dir, id+"-out.json")
	b, _ := json.Marshal(in)
	os.WriteFile(inP, b, 0o644)
	defer os.Remove(inP)
	defer os.Remove(outP)
	to := time.Duration(in.BudgetS+300) * time.Second
	r := core.RunCmd(menv.dir, os.Environ(), to, menv.driver, inP, outP)
	if r.TimedOut {
		return nil, "driver watchdog (" + to.String() + ")"
	}
	if r.Exit != 0 {
		return nil, fmt.Sprintf("driver exit %d: %s", r.Exit, tail(r.Stderr, 2500))
	}
	ob, err := os.ReadFile(outP)
	if err != nil {
		return nil, err.Error()
	}
	var out msim.Output
	if err := json.Unmarshal(ob, &out); err != nil {
		return nil, err.Error()
	}
	return &out, ""
}

type mSpec struct {
	quickN, thoroughN int
	quickS, thoroughS int
	level             string
	rule              string
	assumptions       []string
	summary           string
}

var mSpecs = map[string]mSpec{
	"C04": {quickN: 1200000, thoroughN: 30000000, quickS: 1200, thoroughS: 1500, level: "exploration",
		rule:        "one evaluation = one seeded history (1–26 operations: calls with unique-token arguments incl. nil/zero/empty values, Calls() reads, per-method and global resets, swapping the Func field between echo / nil / panicking) executed on a freshly constructed, freshly generated and instrumented matryer mock inside the simulator (single task); non-trivial = ≥2 operations; distinct = hash(mock, operation list)",
		summary:     "list model held",
		assumptions: []string{"values are compared by fingerprint: deep for values, identity for pointers/maps/chans, behaviour for funcs", "whether a call on a nil Func without stub-impl is recorded is left unconstrained (the statement does not say)"}},
	"C05": {quickN: 240000, thoroughN: 12000000, quickS: 1200, thoroughS: 1500, level: "exploration",
		rule:        "one evaluation = one simulated run: 2–4 tasks × 2–6 operations on one shared mock under one seeded schedule (uniform random, PCT with ≤3 priority change points, or round-robin with random preemption) at the granularity of generated statements and lock operations; faults: a task whose Func panics mid-run, nil Funcs under stub-impl, testify calls without expectation (FailNow unwinds the operation); non-trivial = ≥2 tasks touched one method and a task was preempted or blocked; distinct = hash(mock, operations, lock acquisition order, choice list)",
		summary:     "no race, linearizable, conserved, live",
		assumptions: []string{"interleavings are at the granularity of generated statements and lock operations; word tearing inside one statement is out of reach (the happens-before detector compensates for unsynchronised accesses)", "testify's own mutex stays real and tasks never park inside testify; for the race detector every call from generated code into testify is a critical section on one modelled mutex that touches the state testify owns, and a field of mock.Mock / mock.Call that generated code reads or writes directly is an access to that state without the mutex"}},
	"C03": {quickN: 600000, thoroughN: 20000000, quickS: 1200, thoroughS: 1500, level: "exploration",
		rule:        "one evaluation = one seeded history of expectation registrations (Return / Run+Return / RunAndReturn / per-result providers / whole-signature provider / none; Once/Twice/Times/Maybe; exact or Anything matchers), calls (matching, unmatched, nil/zero/empty and variadic arguments) and cleanup on a freshly generated testify mock; non-trivial = ≥2 operations; distinct = hash(mock, operation list)",
		summary:     "reference model held",
		assumptions: []string{"histories stay inside documented testify behaviour: at most one live expectation matches a call, or identical ones differ only by Once/Times and are consumed in registration order", "func-typed parameters are always registered with mock.Anything (testify refuses func arguments in On)"}},
}

func runM(c *core.Ctx) int {
	mPrepare(c)
	sp := mSpecs[c.Prop]
	n, budget := sp.quickN, sp.quickS
	if c.Tier == "thorough" {
		n, budget = sp.thoroughN, sp.thoroughS
	}
	known := c.LoadKnown()
	var knownSigs []string
	for _, k := range known {
		if k.Status == "known" {
			knownSigs = append(knownSigs, k.Signature.String())
		}
	}
	shards := c.Jobs
	outs := core.ParallelMap(shards, shards, func(i int) *msim.Output {
		o, trouble := mRunDriver(c, msim.Input{Prop: c.Prop, Tier: c.Tier, Seed: c.Seed, Shard: i, Shards: shards, N: (n + shards - 1) / shards, Total: n, BudgetS: budget, Known: knownSigs, Triage: os.Getenv("VERIF_ALL") != "", Focus: os.Getenv("VERIF_FOCUS")}, fmt.Sprintf("s%d", i))
		if o == nil {
			o = &msim.Output{Trouble: trouble}
		}
		return o
	})
	res := &CampaignResult{Distinct: map[string]bool{}, Scheds: map[string]bool{}, Tags: core.NewCounter(), KnownSeen: core.NewCounter()}
	var first *msim.Found
	var regs, unsupported []string
	for _, o := range outs {
		if o.Trouble != "" {
			core.Troublef("%s driver: %s", c.Prop, o.Trouble)
		}
		res.Cases += o.Cases
		res.Evals += o.Runs
		res.Steps += o.Steps
		res.Inconcl += o.Inconcl
		res.Unrepro += o.Unrepro
		for _, k := range o.Keys {
			res.Distinct[fmt.Sprint(k)] = true
		}
		for _, k := range o.SchedKeys {
			res.Scheds[fmt.Sprint(k)] = true
		}
		for k, v := range o.Tags {
			res.Tags.Add(k, v)
		}
		for k, v := range o.KnownSeen {
			res.KnownSeen.Add(k, v)
			res.Suppressed += v
		}
		if len(res.Samples) < 3 {
			res.Samples = append(res.Samples, o.Samples...)
		}
		if o.Found != nil && (first == nil || o.Found.CaseIndex < first.CaseIndex) {
			first = o.Found
		}
		regs, unsupported = o.Regs, o.Unsupported
		for _, cand := range o.Candidates {
			if !res.Scheds["sig:"+cand.Sig()] {
				res.Scheds["sig:"+cand.Sig()] = true
				fmt.Printf("CANDIDATE %s\n    expected: %s\n    observed: %s\n", cand.Sig(), tailStr(cand.Expected, 300), tailStr(cand.Observed, 300))
			}
		}
	}
	skippedGen, skippedBuild := map[string]string{}, map[string]string{}
	for _, u := range menv.units {
		if u.GenErr != "" {
			skippedGen[u.Variant.Name+"/"+u.Iface.Name] = tailStr(u.GenErr, 300)
		}
		if u.BuildErr != "" {
			skippedBuild[u.Variant.Name+"/"+u.Iface.Name] = tailStr(u.BuildErr, 300)
		}
	}
	steps, accesses := 0, 0
	for _, r := range menv.instr {
		if v, ok := r["steps"].(float64); ok {
			steps += int(v)
		}
		if v, ok := r["accesses"].(float64); ok {
			accesses += int(v)
		}
	}
	cov := map[string]any{
		"rule":                       sp.rule,
		"mocks_linked":               regs,
		"unsupported_types":          unsupported,
		"skipped_generation_failed":  skippedGen,
		"skipped_uncompilable":       skippedBuild,
		"skipped_note":               "a mock that cannot be generated or does not compile un-instrumented is a C01 matter (not claimed); it is skipped, counted here with the tool's message, and must not take the other mocks down",
		"instrumentation":            map[string]int{"scheduling_points_inserted": steps, "access_probes_inserted": accesses, "files": len(menv.instr)},
		"distinct_schedules_measure": "distinct (lock acquisition order, task count, scheduler choice list) triples",
		"pipeline_build_s":           menv.genS,
		"seeded_random_interfaces":   mRndSummary(),
		"components":                 map[string]any{"real": []string{"mockery CLI (generation)", "generated mock code", "github.com/stretchr/testify/mock", "reflect"}, "instrumented": []string{"generated mock files: scheduling points, access probes, sync → simsync"}, "stub": []string{"sync.RWMutex/Mutex (simulated, Go semantics incl. writer preference)", "testing.T (recording TestingT)", "user Func fields / Run callbacks (recording dispatchers)"}},
	}
	if first != nil {
		sig := core.Signature{Clause: first.Violation.Clause, Site: first.Violation.Site, Trigger: first.Violation.Trigger}
		cb, _ := json.Marshal(first.Case)
		res.Violations = 1
		res.ReplayPath = c.WriteReplay(&core.Replay{Engine: "M", Signature: sig, Case: cb, Expected: first.Violation.Expected, Observed: first.Violation.Observed, Minimised: first.Note, Mode: "exact"})
		res.First = &Outcome{Sig: &sig, Expected: first.Violation.Expected, Observed: first.Violation.Observed}
	}
	return res.Finish(c, sp.level, cov, sp.assumptions, sp.summary)
}

// mBeforeReplay runs before the pipeline is built for `check replay`: a case on a seeded random
// interface brings the interface's source text with it.
func mBeforeReplay(rp *core.Replay) {
	var cs msim.Case
	if err := json.Unmarshal(rp.Case, &cs); err == nil && cs.IfaceSrc != "" {
		if m := regexp.MustCompile(`^type (\w+) interface`).FindStringSubmatch(cs.IfaceSrc); m != nil {
			mExtraSrc = []rndIface{{Name: m[1], Src: cs.IfaceSrc}}
		}
	}
}

func replayM(c *core.Ctx, rp *core.Replay) (bool, string) {
	var cs msim.Case
	if err := json.Unmarshal(rp.Case, &cs); err != nil {
		core.Troublef("replay case: %v", err)
	}
	o, trouble := mRunDriver(c, msim.Input{Prop: rp.Property, Replay: &cs, BudgetS: 60}, "replay")
	if o == nil {
		core.Troublef("%s", trouble)
	}
	if o.Trouble != "" {
		core.Troublef("%s", o.Trouble)
	}
	if o.Found != nil {
		v := o.Found.Violation
		return true, fmt.Sprintf("%s\n  expected: %s\n  observed: %s", v.Sig(), v.Expected, v.Observed)
	}
	return false, ""
}

func init() {
	for _, p := range []string{"C03", "C04", "C05"} {
		Runners[p] = runM
		Preparers[p] = mPrepare
		Replayers[p] = replayM
		BeforeReplay[p] = mBeforeReplay
	}
	_ = sort.Strings
}

func mRndSummary() map[string]any {
	var names, srcs []string
	for _, ri := range menv.rnd {
		names = append(names, ri.Name)
		if len(srcs) < 3 {
			srcs = append(srcs, ri.Src)
		}
	}
	return map[string]any{"count": len(menv.rnd), "names": names, "samples": srcs, "rejected": menv.rndRejected,
		"note": "drawn from VERIF_SEED through a type grammar (scalars, named types, slices, arrays, pointers, maps, channels, anonymous structs, interface types; func types at top level only; variadics; named/unnamed/blank parameters; named results; error at any position); generated for " + fmt.Sprint(len(mRndVariants)) + " option sets each"}
}
