package checks

import (
	"bytes"
	"fmt"
	"os"
	"path/filepath"
	"regexp"
	"sort"
	"strconv"
	"strings"
	"time"

	"verif/sim/core"
	"verif/sim/world"
)

// ---------------------------------------------------------------------------------------------
// C20 — release tagger: dry-run mutates nothing; only strictly newer versions are tagged.
//
// Engine G: seeded histories of commits, dirtying, foreign tags, version changes and tagger
// invocations on a scratch git repository that persists across the operations of a history;
// after every operation all refs (tags peeled), HEAD, index and work tree are compared with a
// ref-map model.

type c20Op struct {
	Kind   string `json:"kind"` // commit | dirty | clean | tag | version | tagger
	Arg    string `json:"arg,omitempty"`
	Annot  bool   `json:"annotated,omitempty"`
	Back   int    `json:"back,omitempty"`    // tag: how many commits behind HEAD
	DryRun string `json:"dry_run,omitempty"` // tagger: "" (flag omitted) | true | false
}

type c20Case struct {
	Ops []c20Op `json:"ops"`
}

type semv struct {
	maj, min, pat int
	pre           []string
	ok            bool
}

var semverRe = regexp.MustCompile(`^v?(0|[1-9]\d*)\.(0|[1-9]\d*)\.(0|[1-9]\d*)(?:-([0-9A-Za-z-]+(?:\.[0-9A-Za-z-]+)*))?(?:\+([0-9A-Za-z-]+(?:\.[0-9A-Za-z-]+)*))?$`)

// parseSemver is the oracle's own reading of semver.org §2/§9/§10 (independent of the library
// the tool uses).
func parseSemver(s string) semv {
	m := semverRe.FindStringSubmatch(s)
	if m == nil {
		return semv{}
	}
	v := semv{ok: true}
	v.maj, _ = strconv.Atoi(m[1])
	v.min, _ = strconv.Atoi(m[2])
	v.pat, _ = strconv.Atoi(m[3])
	if m[4] != "" {
		v.pre = strings.Split(m[4], ".")
	}
	return v
}

// semverLess implements semver.org §11 precedence (build metadata ignored).
func semverLess(a, b semv) bool {
	if a.maj != b.maj {
		return a.maj < b.maj
	}
	if a.min != b.min {
		return a.min < b.min
	}
	if a.pat != b.pat {
		return a.pat < b.pat
	}
	if len(a.pre) == 0 || len(b.pre) == 0 {
		return len(a.pre) > 0 && len(b.pre) == 0 // a pre-release precedes the release
	}
	for i := 0; i < len(a.pre) && i < len(b.pre); i++ {
		x, y := a.pre[i], b.pre[i]
		xn, ex := strconv.Atoi(x)
		yn, ey := strconv.Atoi(y)
		switch {
		case ex == nil && ey == nil:
			if xn != yn {
				return xn < yn
			}
		case ex == nil:
			return true // numeric identifiers have lower precedence
		case ey == nil:
			return false
		default:
			if x != y {
				return x < y
			}
		}
	}
	return len(a.pre) < len(b.pre)
}

var c20Versions = []string{"v3.0.0", "v3.0.1", "v3.1.0", "v3.2.0", "v3.2.1", "v3.9.0", "v3.10.0", "v3.10.1", "v4.0.0", "v2.9.9", "v3.2.0-rc.1", "v3.2.0-rc.2", "v3.2.0-rc.10", "v3.2.0-beta", "v3.2.0-alpha.1", "v3.3.0-rc.1", "3.4.0", "v3.2.0+build.5", "v3.11.0", "v4.0.0-rc.1", "v4.1.0", "v2.10.0", "v10.0.0", "v11.2.0", "4.0.0", "v3.0.5"}
var c20Foreign = []string{"v3", "v4", "v2", "v3.1", "v3.2", "nightly", "latest", "release-candidate", "docs-2024", "v3-old", "mockery-v3",
	// names under which the tags the tool wants to write become directories (D/F conflict)
	"v3/legacy", "v4/x", "v3.2.0/hotfix", "archive/v3.0.0"}

// c20Ladder is one major's precedence ladder (ascending; the build-metadata entry equals its
// neighbour), with and without the v prefix: the directed part of the campaign puts every rung
// against its neighbours (quick) or against every rung (thorough) as (existing tag, requested).
var c20Ladder = []string{"v3.0.0", "3.0.1", "v3.1.0", "v3.2.0-alpha.1", "v3.2.0-beta", "v3.2.0-rc.1", "v3.2.0-rc.2", "v3.2.0-rc.10", "v3.2.0", "v3.2.0+build.5", "3.2.1", "v3.9.0", "v3.10.0", "3.10.1", "v3.11.0"}

// c20Directed returns the directed histories: (existing tag × requested version) pairs on a
// clean tree asked to tag, and the refusal matrix (dry-run flag × tree state × version relation).
func c20Directed(full bool) []c20Case {
	var out []c20Case
	for ei := range c20Ladder {
		for ri := range c20Ladder {
			if !full && (ri < ei-1 || ri > ei+1) {
				continue
			}
			k := ei + ri
			ops := []c20Op{{Kind: "commit"}, {Kind: "commit"}, {Kind: "commit"}, {Kind: "tag", Arg: c20Ladder[ei], Annot: k%2 == 0, Back: k % 3}}
			if k%4 == 1 {
				ops = append(ops, c20Op{Kind: "pack"})
			}
			ops = append(ops, c20Op{Kind: "version", Arg: c20Ladder[ri]}, c20Op{Kind: "tagger", DryRun: "false"})
			out = append(out, c20Case{Ops: ops})
		}
	}
	// the released commit is rewritten, then the next release is cut: both tags go to the new HEAD
	for _, annot := range []bool{false, true} {
		for _, back := range []int{0, 1} {
			out = append(out, c20Case{Ops: []c20Op{{Kind: "commit"}, {Kind: "commit"}, {Kind: "tag", Arg: "v3.1.0", Annot: annot, Back: back}, {Kind: "tag", Arg: "v3", Annot: annot, Back: back},
				{Kind: "amend"}, {Kind: "version", Arg: "v3.2.0"}, {Kind: "tagger", DryRun: "false"}, {Kind: "commit"}, {Kind: "amend"}, {Kind: "version", Arg: "v3.2.1"}, {Kind: "tagger", DryRun: "false"}}})
		}
	}
	// the user's environment: a global excludes file that matches tracked files; an origin with
	// tags the clone lacks — the verdicts are those of the same histories without them
	for _, envop := range []c20Op{{Kind: "userconfig"}, {Kind: "origin"}, {Kind: "origin", Arg: "fetched"}} {
		for _, dry := range []string{"", "false"} {
			for _, dirty := range []string{"", "modified", "staged-modified", "deleted", "untracked"} {
				for _, req := range []string{"v3.3.0", "v3.2.0"} {
					if !full && req == "v3.2.0" && dirty != "" {
						continue
					}
					ops := []c20Op{{Kind: "commit"}, {Kind: "commit"}, {Kind: "tag", Arg: "v3.2.0", Back: 1}, {Kind: "version", Arg: req}, envop}
					if dirty != "" {
						ops = append(ops, c20Op{Kind: "dirty", Arg: dirty})
					}
					out = append(out, c20Case{Ops: append(ops, c20Op{Kind: "tagger", DryRun: dry}, c20Op{Kind: "tagger", DryRun: "false"})})
				}
			}
		}
	}
	for _, dry := range []string{"", "true", "false"} {
		for _, dirty := range []string{"", "untracked", "modified", "staged-new", "staged-modified", "deleted", "crlf-only", "mode-only"} {
			for _, req := range []string{"v3.3.0", "v3.2.0", "v3.1.0", "banana"} {
				ops := []c20Op{{Kind: "commit"}, {Kind: "commit"}, {Kind: "tag", Arg: "v3.2.0", Back: 1}, {Kind: "version", Arg: req}}
				if dirty != "" {
					ops = append(ops, c20Op{Kind: "dirty", Arg: dirty})
				}
				ops = append(ops, c20Op{Kind: "tagger", DryRun: dry})
				if !full && dry == "false" && dirty != "" && dirty != "modified" {
					continue
				}
				out = append(out, c20Case{Ops: ops})
			}
		}
	}
	return out
}

func c20Gen(r *core.Rng) c20Case {
	cs := c20Case{}
	cs.Ops = append(cs.Ops, c20Op{Kind: "commit"}, c20Op{Kind: "version", Arg: core.Pick(r, c20Versions)})
	n := r.Range(3, 12)
	for i := 0; i < n; i++ {
		switch k := r.Intn(20); {
		case k < 4:
			cs.Ops = append(cs.Ops, c20Op{Kind: "commit"})
		case k < 6:
			cs.Ops = append(cs.Ops, c20Op{Kind: "dirty", Arg: core.Pick(r, []string{"untracked", "modified", "staged-new", "staged-modified", "deleted", "staged-deleted", "crlf-only", "mode-only"})})
		case k < 8:
			cs.Ops = append(cs.Ops, c20Op{Kind: "clean"})
		case k == 12 && r.Chance(1, 2):
			cs.Ops = append(cs.Ops, c20Op{Kind: "pack"})
		case k == 12:
			cs.Ops = append(cs.Ops, c20Op{Kind: core.Pick(r, []string{"detach", "detach", "attach", "amend", "amend"})})
		case k == 11 && r.Chance(1, 3):
			cs.Ops = append(cs.Ops, c20Op{Kind: core.Pick(r, []string{"userconfig", "origin"}), Arg: core.Pick(r, []string{"", "fetched"})})
		case k == 11 && r.Chance(1, 2):
			// a branch named like a tag the tool handles
			cs.Ops = append(cs.Ops, c20Op{Kind: "branch", Arg: core.Pick(r, []string{"v3", "v4", "v3.2.0", "release"})})
		case k < 11:
			name := core.Pick(r, c20Versions)
			if r.Chance(1, 3) {
				name = core.Pick(r, c20Foreign)
			}
			back := r.Intn(3)
			if r.Chance(1, 10) {
				back = 7 + r.Intn(2)
			}
			cs.Ops = append(cs.Ops, c20Op{Kind: "tag", Arg: name, Annot: r.Bool(), Back: back})
		case k < 13:
			v := core.Pick(r, c20Versions)
			if r.Chance(1, 12) {
				v = core.Pick(r, []string{"banana", "", "v3.x.0"})
			}
			cs.Ops = append(cs.Ops, c20Op{Kind: "version", Arg: v})
		default:
			cs.Ops = append(cs.Ops, c20Op{Kind: "tagger", DryRun: core.Pick(r, []string{"", "true", "false", "false", "false"})})
			// place some faults right after a successful-looking tagging: same version again
			if r.Chance(1, 3) {
				cs.Ops = append(cs.Ops, c20Op{Kind: "tagger", DryRun: core.Pick(r, []string{"", "false"})})
			}
		}
	}
	cs.Ops = append(cs.Ops, c20Op{Kind: "tagger", DryRun: core.Pick(r, []string{"false", "false", "true", ""})})
	return cs
}

type c20Repo struct {
	dir  string
	env  []string
	t    int
	fail string
}

func (g *c20Repo) git(args ...string) string {
	r := core.RunCmd(g.dir, g.env, 60*time.Second, "git", args...)
	if r.Exit != 0 && g.fail == "" {
		g.fail = fmt.Sprintf("git %v: exit %d: %s", args, r.Exit, tail(r.Stderr, 300))
	}
	return strings.TrimSpace(r.Stdout)
}

// try runs git and tolerates failure (a foreign tag that git itself refuses, e.g. a D/F conflict).
func (g *c20Repo) try(args ...string) {
	core.RunCmd(g.dir, g.env, 60*time.Second, "git", args...)
}

type c20State struct {
	Refs    map[string]string // ref → peeled commit (tags) or object id
	RawTags map[string]string // tag ref → object id of the ref itself
	Head    string
	HeadSym string
	Status  string
	Index   string
	Tree    string
	// Store is everything under .git except the index (object store, packed-refs, config, logs…)
	Store world.Snapshot
}

func (g *c20Repo) state() c20State {
	st := c20State{Refs: map[string]string{}, RawTags: map[string]string{}}
	r := core.RunCmd(g.dir, g.env, 60*time.Second, "git", "show-ref", "-d")
	for _, l := range strings.Split(strings.TrimSpace(r.Stdout), "\n") {
		f := strings.Fields(l)
		if len(f) != 2 {
			continue
		}
		if strings.HasSuffix(f[1], "^{}") {
			st.Refs[strings.TrimSuffix(f[1], "^{}")] = f[0]
		} else {
			if _, ok := st.Refs[f[1]]; !ok {
				st.Refs[f[1]] = f[0]
			}
			st.RawTags[f[1]] = f[0]
		}
	}
	st.Head = g.git("rev-parse", "HEAD")
	if r := core.RunCmd(g.dir, g.env, 60*time.Second, "git", "symbolic-ref", "-q", "HEAD"); r.Exit == 0 {
		st.HeadSym = strings.TrimSpace(r.Stdout)
	} else {
		st.HeadSym = "(detached)"
	}
	st.Status = g.git("status", "--porcelain=v1", "-uall")
	st.Index = g.git("ls-files", "-s")
	snap, _ := world.Snap(g.dir)
	st.Store = world.Snapshot{}
	for k := range snap {
		if k == ".git" || strings.HasPrefix(k, ".git/") {
			if k != ".git/index" {
				st.Store[k] = snap[k]
			}
			delete(snap, k)
		}
	}
	st.Tree = snap.Digest()
	return st
}

func evalC20(c *core.Ctx, cs c20Case, id string) Outcome {
	out := Outcome{}
	base := filepath.Join(c.Scratch, "g", id)
	repo := filepath.Join(base, "project", "repo")
	defer os.RemoveAll(base)
	if err := os.MkdirAll(repo, 0o755); err != nil {
		out.Trouble = err.Error()
		return out
	}
	env := []string{"PATH=" + os.Getenv("PATH"), "HOME=" + base, "GIT_CONFIG_NOSYSTEM=1", "GIT_AUTHOR_NAME=sim", "GIT_AUTHOR_EMAIL=sim@example.invalid", "GIT_COMMITTER_NAME=sim", "GIT_COMMITTER_EMAIL=sim@example.invalid",
		"GIT_AUTHOR_DATE=2020-01-01T00:00:00Z", "GIT_COMMITTER_DATE=2020-01-01T00:00:00Z", "TZ=UTC", "LC_ALL=C"}
	g := &c20Repo{dir: repo, env: env}
	g.git("init", "-q", "-b", "main")
	g.git("config", "user.name", "sim")
	g.git("config", "user.email", "sim@example.invalid")
	os.WriteFile(filepath.Join(repo, "file.txt"), []byte("base\n"), 0o644)
	os.WriteFile(filepath.Join(repo, "other.txt"), []byte("other\n"), 0o644)
	// the version file lives in the parent directory, so the work tree stays clean
	envFile := filepath.Join(base, "project", "mockery-tools.env")
	version := "v3.0.0"
	os.WriteFile(envFile, []byte("VERSION="+version+"\n"), 0o644)
	var hist []string
	mk := func(i int, clause, trig, exp, obs string) Outcome {
		out.Sig = &core.Signature{Clause: clause, Site: "tagger", Trigger: trig}
		out.Expected = exp
		out.Observed = fmt.Sprintf("%s [op %d of history %v]", obs, i, hist)
		return out
	}
	commits := 0
	packed := false
	hasOrigin := false
	for i, op := range cs.Ops {
		hist = append(hist, strings.TrimSpace(fmt.Sprintf("%s %s %s", op.Kind, op.Arg, op.DryRun)))
		switch op.Kind {
		case "dirty":
			out.Tags = append(out.Tags, "fault:dirty-"+op.Arg)
		case "tag":
			out.Tags = append(out.Tags, "fault:foreign-tag-"+c20VersionClass(op.Arg)+tern(op.Annot, "-annotated", "-lightweight"))
		case "version":
			if !parseSemver(op.Arg).ok {
				out.Tags = append(out.Tags, "fault:invalid-requested-version")
			}
		case "pack":
			out.Tags = append(out.Tags, "fault:refs-packed")
		case "branch":
			out.Tags = append(out.Tags, "fault:branch-named-like-tag")
		}
		switch op.Kind {
		case "commit":
			commits++
			g.t++
			os.WriteFile(filepath.Join(repo, "file.txt"), []byte(fmt.Sprintf("content %d\n", g.t)), 0o644)
			g.git("add", "-A")
			g.git("commit", "-q", "-m", fmt.Sprintf("commit %d", g.t))
		case "dirty":
			switch op.Arg {
			case "untracked":
				os.WriteFile(filepath.Join(repo, fmt.Sprintf("untracked%d.txt", i)), []byte("u\n"), 0o644)
			case "modified":
				os.WriteFile(filepath.Join(repo, "other.txt"), []byte(fmt.Sprintf("modified %d\n", i)), 0o644)
			case "staged-new":
				os.WriteFile(filepath.Join(repo, fmt.Sprintf("staged%d.txt", i)), []byte("s\n"), 0o644)
				g.git("add", fmt.Sprintf("staged%d.txt", i))
			case "staged-modified":
				os.WriteFile(filepath.Join(repo, "other.txt"), []byte(fmt.Sprintf("staged modification %d\n", i)), 0o644)
				g.git("add", "other.txt")
			case "deleted":
				os.Remove(filepath.Join(repo, "other.txt"))
			case "crlf-only":
				// the same text with other line endings: no conversion is configured, so git (and
				// the statement) call this tree dirty
				if b, err := os.ReadFile(filepath.Join(repo, "other.txt")); err == nil && !bytes.Contains(b, []byte("\r\n")) {
					os.WriteFile(filepath.Join(repo, "other.txt"), bytes.ReplaceAll(b, []byte("\n"), []byte("\r\n")), 0o644)
				}
			case "mode-only":
				os.Chmod(filepath.Join(repo, "other.txt"), 0o755)
			case "staged-deleted":
				if _, err := os.Stat(filepath.Join(repo, "other.txt")); err == nil {
					g.git("rm", "-q", "-f", "--cached", "--ignore-unmatch", "other.txt")
				}
			}
		case "clean":
			g.git("reset", "-q", "--hard", "HEAD")
			g.git("clean", "-fdq")
		case "tag":
			target := "HEAD"
			if op.Back > 0 && op.Back < commits {
				target = fmt.Sprintf("HEAD~%d", op.Back)
			}
			// a foreign tag may replace an existing one of the same name (somebody else's push)
			switch {
			case op.Back == 7: // an annotated tag that points at another tag object
				g.try("tag", "-f", "-a", "-m", "inner", "inner-"+fmt.Sprint(i), "HEAD")
				g.try("tag", "-f", "-a", "-m", op.Arg, op.Arg, "inner-"+fmt.Sprint(i))
			case op.Back == 8: // a tag that points at a tree
				g.try("tag", "-f", op.Arg, "HEAD^{tree}")
			case op.Annot:
				g.try("tag", "-f", "-a", "-m", op.Arg, op.Arg, target)
			default:
				g.try("tag", "-f", op.Arg, target)
			}
		case "amend":
			// HEAD moves sideways: tags on the old commit are no longer ancestors of HEAD
			if st := g.git("status", "--porcelain=v1", "-uall"); st == "" && commits > 0 {
				g.t++
				g.git("commit", "-q", "--amend", "--allow-empty", "-m", fmt.Sprintf("amended %d", g.t))
				out.Tags = append(out.Tags, "fault:head-amended")
			}
		case "userconfig":
			// the user's own git configuration: a global excludes file whose patterns happen to match
			// tracked files (git ignores such patterns for tracked files; so must the tool) — none of
			// the untracked files this harness creates matches
			os.WriteFile(filepath.Join(base, ".gitconfig"), []byte("[core]\n\texcludesFile = "+filepath.Join(base, ".gitignore_global")+"\n\tautocrlf = false\n[user]\n\tname = sim\n\temail = sim@example.invalid\n"), 0o644)
			os.WriteFile(filepath.Join(base, ".gitignore_global"), []byte("other.*\n/file.txt\n*.md\n.DS_Store\n"), 0o644)
			out.Tags = append(out.Tags, "fault:user-excludes-file-matches-tracked-files")
		case "origin":
			// the repository becomes a clone whose origin has tags the clone lacks (and, with Arg
			// "diverged", an existing tag at another commit): nothing of that may leak in
			if commits > 0 && !hasOrigin {
				o := filepath.Join(base, "origin.git")
				g.git("clone", "-q", "--bare", repo, o)
				g.git("-C", o, "tag", "remote-only")
				g.git("-C", o, "tag", "-a", "-m", "published elsewhere", "v3.0.0-remote.1")
				g.git("-C", o, "tag", "v2.99.0")
				g.git("remote", "add", "origin", o)
				if op.Arg == "fetched" {
					g.git("fetch", "-q", "--no-tags", "origin")
				}
				hasOrigin = true
				out.Tags = append(out.Tags, "fault:origin-has-tags-the-clone-lacks")
			}
		case "branch":
			g.git("branch", "-f", op.Arg, "HEAD")
		case "pack":
			g.git("pack-refs", "--all")
			packed = true
		case "detach":
			if st := g.git("status", "--porcelain=v1", "-uall"); st == "" {
				g.git("checkout", "-q", "--detach", "HEAD")
				out.Tags = append(out.Tags, "fault:detached-head")
			}
		case "attach":
			if st := g.git("status", "--porcelain=v1", "-uall"); st == "" {
				g.try("checkout", "-q", "main")
			}
		case "version":
			version = op.Arg
			os.WriteFile(envFile, []byte("VERSION="+version+"\n"), 0o644)
		case "tagger":
			before := g.state()
			if g.fail != "" {
				out.Trouble = g.fail
				return out
			}
			args := []string{"tag"}
			if op.DryRun != "" {
				args = append(args, "--dry-run="+op.DryRun)
			}
			res := core.RunCmd(repo, append(env, "NO_COLOR=1"), 120*time.Second, c20bin, args...)
			out.Runs++
			if res.TimedOut {
				out.Trouble = "tagger watchdog"
				return out
			}
			after := g.state()
			dry := op.DryRun != "false"
			req := parseSemver(version)
			clean := before.Status == ""
			eligible := !dry && clean && req.ok
			var blocking []string
			if req.ok {
				for ref := range before.Refs {
					name := strings.TrimPrefix(ref, "refs/tags/")
					if name == ref {
						continue
					}
					tv := parseSemver(name)
					if tv.ok && tv.maj == req.maj && !semverLess(tv, req) {
						eligible = false
						blocking = append(blocking, name)
					}
				}
			}
			sort.Strings(blocking)
			trig := fmt.Sprintf("dry-run=%s,clean=%v,requested=%s", tern(op.DryRun == "", "default", op.DryRun), clean, c20VersionClass(version))
			if len(blocking) > 0 {
				trig += ",blocked-by=" + c20VersionClass(blocking[len(blocking)-1])
			}
			out.Tags = append(out.Tags, "tagger:"+tern(dry, "dry", "real"), "tree:"+tern(clean, "clean", "dirty"), fmt.Sprintf("exit:%d", res.Exit))
			// everything but tags never changes
			if before.Head != after.Head || before.HeadSym != after.HeadSym {
				return mk(i, "head-changed", trig, "HEAD unchanged", before.Head+" → "+after.Head)
			}
			if before.Status != after.Status || before.Index != after.Index || before.Tree != after.Tree {
				return mk(i, "worktree-or-index-changed", trig, "index and work tree unchanged", fmt.Sprintf("status %q → %q", before.Status, after.Status))
			}
			// a dry run performs no repository mutation at all: not in the object store either
			if dry {
				if d := world.Diff(before.Store, after.Store); len(d) > 0 {
					if len(d) > 6 {
						d = append(d[:6], fmt.Sprintf("… %d more", len(d)-6))
					}
					return mk(i, "dry-run-mutated-the-repository", trig, "nothing under .git changes in a dry run", fmt.Sprint(d))
				}
			}
			// a ref "changed" when its own object id changed, or it appeared or disappeared. A
			// non-tag ref whose object id is unchanged but for which git now reports a peeled
			// value (or another one) has a damaged packed-refs entry: reported separately.
			var changed, peelOnly []string
			for ref := range before.Refs {
				switch {
				case before.RawTags[ref] != after.RawTags[ref]:
					changed = append(changed, ref)
				case after.Refs[ref] != before.Refs[ref]:
					if strings.HasPrefix(ref, "refs/tags/") {
						changed = append(changed, ref)
					} else {
						peelOnly = append(peelOnly, ref)
					}
				}
			}
			for ref := range after.Refs {
				if _, ok := before.Refs[ref]; !ok {
					changed = append(changed, ref)
				}
			}
			if len(peelOnly) > 0 {
				sort.Strings(peelOnly)
				return mk(i, "packed-refs-entry-of-branch-damaged", tern(packed, "refs-packed,", "")+tern(dry, "dry-run", "real-run"), "the tool changes nothing but the two tags",
					fmt.Sprintf("git now reports a peeled object for %v although the ref itself is unchanged (a stray ^-line was left in packed-refs)", peelOnly))
			}
			sort.Strings(changed)
			if !eligible {
				if len(changed) > 0 {
					why := "dry-run"
					switch {
					case !dry && !clean:
						why = "dirty work tree"
					case !dry && !req.ok:
						why = "requested version is not a semantic version"
					case !dry:
						why = "requested version is not strictly greater than " + strings.Join(blocking, ",")
					}
					return mk(i, "refs-mutated-when-not-allowed", trig, "all refs untouched ("+why+")", fmt.Sprintf("changed refs: %v", changed))
				}
				if !dry && res.Exit == 0 {
					return mk(i, "exit-0-without-tagging", trig, "'nothing to do' or an error signalled through the exit status", "exit 0, no ref changed")
				}
				// a dry run performs the same checks: on a dirty tree, for a version that is not
				// strictly greater or not a version at all, its exit status says so too (only the
				// dry run that would have tagged is left unjudged)
				if dry && res.Exit == 0 && (!clean || !req.ok || len(blocking) > 0) {
					return mk(i, "dry-run-exit-0-where-tagging-is-refused", trig, "'nothing to do' or an error signalled through the exit status", "exit 0")
				}
				out.Tags = append(out.Tags, "probe:refused")
				continue
			}
			// eligible: either it tagged exactly the two tags, or it refused with a non-zero status
			full := "refs/tags/v" + strings.TrimPrefix(version, "v")
			major := fmt.Sprintf("refs/tags/v%d", req.maj)
			if len(changed) == 0 {
				if res.Exit == 0 {
					return mk(i, "exit-0-without-tagging", trig, "tags created, or failure signalled through the exit status", "exit 0, no ref changed")
				}
				out.Tags = append(out.Tags, "probe:eligible-but-refused")
				continue
			}
			for _, ref := range changed {
				if ref != full && ref != major {
					return mk(i, "unrelated-ref-changed", trig, "only "+full+" and "+major+" change", fmt.Sprintf("changed refs: %v", changed))
				}
			}
			if after.Refs[full] != before.Head || after.Refs[major] != before.Head {
				return mk(i, "tags-not-at-head", trig, "both the full version tag and the major tag point at HEAD "+before.Head, fmt.Sprintf("%s→%s %s→%s", full, after.Refs[full], major, after.Refs[major]))
			}
			if res.Exit != 0 {
				return mk(i, "tagged-but-non-zero-exit", trig, "exit 0 after tagging", fmt.Sprint(res.Exit))
			}
			out.Tags = append(out.Tags, "probe:tagged")
		}
		if g.fail != "" {
			out.Trouble = g.fail
			return out
		}
	}
	out.Key = core.HashStr(strings.Join(hist, ";"))
	out.Nontrivial = out.Runs >= 1 && len(cs.Ops) >= 4
	out.Steps = len(cs.Ops)
	return out
}

func c20VersionClass(v string) string {
	s := parseSemver(v)
	switch {
	case !s.ok:
		return "non-semver"
	case len(s.pre) > 0:
		return "pre-release"
	case strings.Contains(v, "+"):
		return "build-metadata"
	case !strings.HasPrefix(v, "v"):
		return "no-v-prefix"
	case s.min >= 10 || s.pat >= 10:
		return "two-digit-component"
	}
	return "plain"
}

var c20bin string

func c20Prepare(c *core.Ctx) {
	c.PrepareRepo(false)
	c20bin = filepath.Join(c.Scratch, "bin", "mockery-tools")
	os.MkdirAll(filepath.Dir(c20bin), 0o755)
	r := core.RunCmd(filepath.Join(c.RepoCopy, "tools"), core.GoEnv(), 15*time.Minute, "go", "build", "-trimpath", "-o", c20bin, ".")
	if r.Exit != 0 {
		core.Troublef("building the tools module failed:\n%s\n%s", r.Stdout, r.Stderr)
	}
}

func RunC20(c *core.Ctx) int {
	c20Prepare(c)
	n := 200
	budget := 20 * time.Minute // quick: the case count is the contract, the clock only a watchdog
	if c.Tier == "thorough" {
		n = 4000
		budget = 28 * time.Minute
	}
	directed := c20Directed(c.Tier == "thorough")
	n += len(directed)
	cp := &Campaign[c20Case]{C: c, Engine: "G", N: n, Budget: budget,
		Gen: func(i int) c20Case {
			if i < len(directed) {
				return directed[i]
			}
			return c20Gen(core.Stream(c.Seed, "c20", i))
		},
		Eval: func(cs c20Case, id string) Outcome {
			o := evalC20(c, cs, id)
			if o.Sample == nil {
				var ops []string
				for _, op := range cs.Ops {
					ops = append(ops, strings.TrimSpace(fmt.Sprintf("%s %s %s annotated=%v back=%d", op.Kind, op.Arg, op.DryRun, op.Annot, op.Back)))
				}
				o.Sample = map[string]any{"ops": ops}
			}
			return o
		},
		Shrink: func(cs c20Case, fails func(c20Case) bool, deadline time.Time) (c20Case, string) {
			n0 := len(cs.Ops)
			for i := len(cs.Ops) - 1; i >= 1 && time.Now().Before(deadline); i-- {
				if i >= len(cs.Ops) {
					continue
				}
				cand := c20Case{Ops: append(append([]c20Op(nil), cs.Ops[:i]...), cs.Ops[i+1:]...)}
				if fails(cand) {
					cs = cand
				}
			}
			return cs, fmt.Sprintf("ops %d→%d", n0, len(cs.Ops))
		},
	}
	res := cp.Run()
	cov := map[string]any{
		"rule":       "one evaluation = one invocation of the tagger inside a seeded history (5–20 operations: commit, dirty (6 kinds), clean, foreign tag (lightweight/annotated, at HEAD or behind), version change, tagger with the flag omitted/true/false) on a scratch git repository; after every tagger invocation all refs (tags peeled), HEAD, index and work tree are compared with the ref-map model; non-trivial = history of ≥4 operations with ≥1 tagger invocation; distinct = hash of the history",
		"versions":   c20Versions,
		"directed":   fmt.Sprintf("%d directed histories first: every rung of a %d-rung precedence ladder (pre-releases, two-digit components, build metadata, with and without v prefix) as existing tag against its neighbours (quick) or every rung (thorough) as requested version; dry-run flag × tree state × version relation matrix", len(directed), len(c20Ladder)),
		"other_tags": c20Foreign,
		"components": map[string]any{"real": []string{"tools binary (go-git, viper, cobra, Masterminds/semver)", "git CLI for set-up and observation", "tmpfs"}, "instrumented": []string{}, "stub": []string{}},
	}
	return res.Finish(c, "exploration", cov, []string{
		"semantic-version precedence is the oracle's own implementation of semver.org §11 over the generated version domain",
		"when tagging is permitted the tool may still refuse with a non-zero status (counted as probe:eligible-but-refused); it may never exit 0 without tagging when asked to tag",
	}, "ref-map model held")
}

func init() {
	Runners["C20"] = RunC20
	registerReplayer[c20Case]("C20", c20Prepare, evalC20)
}
