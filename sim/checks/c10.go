package checks

import (
	"fmt"
	"path/filepath"
	"sort"
	"strings"
	"time"

	"verif/sim/core"
	"verif/sim/simrt"
	"verif/sim/world"
)

// ---------------------------------------------------------------------------------------------
// C10 — output files are written safely: no stray writes, no clobbering, all-or-nothing.
//
// Initial tree states × force-file-write placement × one stage fault at one file × iteration
// order; oracle on before/after snapshots (O1 no stray write, O2 no clobber without force,
// O3 every designated path = complete old or complete new, O4 the faulted file keeps its old
// state; fault-free batch: exit 0 ⇒ every designated path = new).

type c10Case struct {
	Tree       world.Tree        `json:"tree"` // includes the initial state of every output path
	Step       world.Step        `json:"step"`
	New        map[string]string `json:"new"`     // designated output path → content of the reference run
	Faulted    []string          `json:"faulted"` // designated paths whose production is made to fail
	Force      map[string]bool   `json:"force"`   // effective force-file-write per designated path
	Init       map[string]string `json:"init"`    // designated path → absent|old|user|dir
	Fault      string            `json:"fault"`   // stage fault label ("none" = fault-free batch)
	ForceLevel string            `json:"force_level"`
	Discard    string            `json:"discard,omitempty"`
}

type c10File struct {
	path   string
	pkg    int
	ifaces []string
}

type c10World struct {
	proj    *world.Project
	files   []c10File
	newc    map[string]string
	oldc    map[string]string
	discard string
	tmpl    string
}

func c10OutDir(pkgDir string) string { return "mocks/" + c09Mod + "/" + pkgDir }

func c10GenWorld(r *core.Rng) *c10World {
	o := world.GenOpts{MinPkgs: 2, MaxPkgs: 3, MaxIfacesPerPkg: 3, AllowXRef: true}
	pkgs := world.GenPackages(r, o)
	p := &world.Project{Module: c09Mod, Pkgs: pkgs, Aux: map[string]string{}}
	w := &c10World{proj: p}
	w.tmpl = core.Pick(r, []string{"testify", "matryer"})
	cfg := world.NewY()
	cfg.Set("template", w.tmpl)
	cfg.Set("formatter", core.Pick(r, []string{"goimports", "gofmt"}))
	if w.tmpl == "matryer" {
		cfg.Set("formatter", "goimports")
	}
	cfg.Set("dir", "mocks/{{.SrcPackagePath}}")
	cfg.Set("filename", "mocks.go")
	cfg.Set("pkgname", "mocks")
	pk := cfg.Sub("packages")
	for i, q := range pkgs {
		e := pk.Sub(c09Mod + "/" + q.Dir)
		e.Sub("config")
		names := q.AllIfaces(nil)
		ifs := e.Sub("interfaces")
		main := c10File{path: c10OutDir(q.Dir) + "/mocks.go", pkg: i}
		var own *c10File
		for j, n := range names {
			ic := ifs.Sub(n).Sub("config")
			if j == len(names)-1 && len(names) >= 2 && r.Chance(1, 2) {
				fn := "own_" + strings.ToLower(n) + ".go"
				if r.Bool() {
					fn = "nested/deeper/" + fn // a filename may name sub-directories
				}
				ic.Set("filename", fn)
				own = &c10File{path: c10OutDir(q.Dir) + "/" + fn, pkg: i, ifaces: []string{n}}
				continue
			}
			main.ifaces = append(main.ifaces, n)
		}
		w.files = append(w.files, main)
		if own != nil {
			w.files = append(w.files, *own)
		}
		// bystanders next to the outputs
		p.Aux[c10OutDir(q.Dir)+"/notes.txt"] = "user notes, not to be touched\n"
		p.Aux[c10OutDir(q.Dir)+"/mocks.go~"] = "editor backup\n"
		// neighbours with the names a careless "write to a temporary sibling, then rename" would pick
		for _, suf := range []string{".tmp", ".bak", ".orig", ".new", ".swp"} {
			p.Aux[c10OutDir(q.Dir)+"/mocks.go"+suf] = "a user's file that merely looks like a temporary sibling of the output (" + suf + ")\n"
		}
		p.Aux[c10OutDir(q.Dir)+"/.mocks.go.tmp"] = "hidden sibling\n"
		p.Aux[c10OutDir(q.Dir)+"/Mocks_helper.go"] = "package mocks\n\n// user helper\n"
	}
	p.Aux["README.md"] = "# project\n"
	p.Aux["templates/broken.templ"] = "package {{.PkgName}}\n\nfunc broken() { {{range .Interfaces}} // {{.StructName}}\n{{end}}\n"
	p.Config = cfg
	return w
}

func (w *c10World) cloneProj() *world.Project {
	np := *w.proj
	np.Config = w.proj.Config.Clone()
	np.Aux = map[string]string{}
	for k, v := range w.proj.Aux {
		np.Aux[k] = v
	}
	np.Dirs = append([]string(nil), w.proj.Dirs...)
	return &np
}

// prepare performs the reference run (new content) and the "previous generation" run (old
// content, same binary, different structname) on pristine trees.
func (w *c10World) prepare(c *core.Ctx, id string) {
	run := func(tag string, mut func(cfg *world.Y)) map[string]string {
		p := w.cloneProj()
		p.Config.Set("force-file-write", true)
		mut(p.Config)
		base := filepath.Join(c.Scratch, "w", id+"-"+tag)
		root := filepath.Join(base, "root")
		defer world.RemoveAll(base)
		if err := p.Tree().Materialise(root); err != nil {
			w.discard = err.Error()
			return nil
		}
		res := world.Run(c.Bin, root, base, world.Step{Plan: world.Plan("asc", 1, 0, 2010, 321)}, 90*time.Second)
		if res.Exit != 0 || res.TimedOut {
			w.discard = fmt.Sprintf("%s run exit %d: %s", tag, res.Exit, tail(res.Stderr, 300))
			return nil
		}
		out := map[string]string{}
		for _, f := range w.files {
			b, err := world.ReadRegular(filepath.Join(root, f.path))
			if err != nil {
				w.discard = tag + " run did not produce " + f.path
				return nil
			}
			out[f.path] = strings.ReplaceAll(string(b), root, world.RootPlaceholder) // location-independent
		}
		return out
	}
	w.newc = run("ref", func(cfg *world.Y) {})
	if w.discard != "" {
		return
	}
	// previous generation with longer names: the old file is longer than the new one, so an
	// overwrite that does not truncate leaves a tail behind
	w.oldc = run("old", func(cfg *world.Y) { cfg.Set("structname", "PreviousGenerationWithAVeryLongName{{.InterfaceName}}") })
}

var c10Faults = []string{"none", "none", "none", "retrieval-file", "retrieval-http", "schema-interface", "schema-package", "exec-boilerplate", "format-pkgname", "format-template", "format-unknown-formatter"}

func (w *c10World) ifaceNode(cfg *world.Y, f c10File, n string) *world.Y {
	return cfg.Sub("packages").Sub(c09Mod + "/" + w.proj.Pkgs[f.pkg].Dir).Sub("interfaces").Sub(n).Sub("config")
}
func (w *c10World) pkgNode(cfg *world.Y, pkg int) *world.Y {
	return cfg.Sub("packages").Sub(c09Mod + "/" + w.proj.Pkgs[pkg].Dir).Sub("config")
}

func (w *c10World) build(r *core.Rng, fault, policy string, yr int) c10Case {
	cs := c10Case{Fault: fault, New: map[string]string{}, Force: map[string]bool{}, Init: map[string]string{}}
	if w.discard != "" {
		cs.Discard = w.discard
		return cs
	}
	p := w.cloneProj()
	cfg := p.Config
	plan := world.Plan(policy, r.Uint64(), r.Intn(3), yr, 100+r.Intn(900))
	for k, v := range w.newc {
		cs.New[k] = v
	}
	// force-file-write placement
	lv := core.Pick(r, []string{"unset", "root", "package", "interface", "interface", "package", "env"})
	var env map[string]string
	cs.ForceLevel = lv
	rootV := r.Chance(3, 4)
	switch lv {
	case "unset":
		for _, f := range w.files {
			cs.Force[f.path] = false
		}
	case "env":
		// provided through the environment only
		env = map[string]string{"MOCKERY_FORCE_FILE_WRITE": fmt.Sprint(rootV)}
		for _, f := range w.files {
			cs.Force[f.path] = rootV
		}
	case "root":
		cfg.Set("force-file-write", rootV)
		for _, f := range w.files {
			cs.Force[f.path] = rootV
		}
	case "package":
		if r.Bool() {
			cfg.Set("force-file-write", rootV)
		}
		pv := map[int]bool{}
		for _, f := range w.files {
			if _, ok := pv[f.pkg]; !ok {
				pv[f.pkg] = r.Chance(3, 4)
				w.pkgNode(cfg, f.pkg).Set("force-file-write", pv[f.pkg])
			}
			cs.Force[f.path] = pv[f.pkg]
		}
	case "interface":
		if r.Bool() {
			cfg.Set("force-file-write", rootV)
		}
		for _, f := range w.files {
			if r.Chance(1, 3) {
				w.pkgNode(cfg, f.pkg).Set("force-file-write", r.Bool())
			}
		}
		for _, f := range w.files {
			v := r.Chance(3, 4)
			mixed := len(f.ifaces) >= 2 && r.Chance(1, 2)
			all := true
			for _, n := range f.ifaces {
				vi := v
				if mixed {
					vi = r.Bool()
				}
				all = all && vi
				w.ifaceNode(cfg, f, n).Set("force-file-write", vi)
			}
			// mocks sharing a file may disagree: the file may only be replaced if every one of
			// them allows it
			cs.Force[f.path] = all
		}
	}
	// stage fault at one file
	tf := w.files[r.Intn(len(w.files))]
	faultedPkg := -1
	setAll := func(k string, v any) {
		for _, n := range tf.ifaces {
			w.ifaceNode(cfg, tf, n).Set(k, v)
		}
	}
	switch fault {
	case "none":
	case "retrieval-file":
		setAll("template", "file://"+world.RootPlaceholder+"/templates/absent.templ")
		cs.Faulted = []string{tf.path}
	case "retrieval-http":
		u := "https://origin.test/mock.templ"
		setAll("template", u)
		plan.HTTP = map[string][]simrt.Response{u: {{Kind: core.Pick(r, []string{"error", "status", "truncate"}), Status: 503, Text: "connection reset by peer", Body: "package x", After: 4}},
			u + ".schema.json": {{Kind: "ok", Body: `{"type":"object"}`}}}
		cs.Faulted = []string{tf.path}
	case "schema-interface":
		w.ifaceNode(cfg, tf, tf.ifaces[r.Intn(len(tf.ifaces))]).Sub("template-data").Set("no-such-option", true)
		cs.Faulted = []string{tf.path}
	case "schema-package":
		w.pkgNode(cfg, tf.pkg).Sub("template-data").Set("mock-build-tags", 3)
		faultedPkg = tf.pkg
	case "exec-boilerplate":
		w.pkgNode(cfg, tf.pkg).Sub("template-data").Set("boilerplate-file", world.RootPlaceholder+"/no/such/boilerplate.txt")
		faultedPkg = tf.pkg
	case "format-pkgname":
		setAll("pkgname", "1bad")
		cs.Faulted = []string{tf.path}
	case "format-template":
		setAll("template", "file://"+world.RootPlaceholder+"/templates/broken.templ")
		setAll("require-template-schema-exists", false)
		setAll("formatter", "gofmt")
		cs.Faulted = []string{tf.path}
	case "format-unknown-formatter":
		setAll("formatter", "prettier")
		cs.Faulted = []string{tf.path}
	}
	if faultedPkg >= 0 {
		for _, f := range w.files {
			if f.pkg == faultedPkg {
				cs.Faulted = append(cs.Faulted, f.path)
			}
		}
	}
	// initial state of every designated path
	for _, f := range w.files {
		st := core.Pick(r, []string{"absent", "absent", "absent", "old", "old", "old", "user", "dir", "full", "link"})
		if st == "link" && cs.Force[f.path] {
			// writing through a link the user put at an overwritable output path is the user's
			// business; only the protected case is judged
			st = "old"
		}
		cs.Init[f.path] = st
		switch st {
		case "old":
			p.Aux[f.path] = w.oldc[f.path]
		case "user":
			p.Aux[f.path] = "package mocks\n\n// hand-written file that happens to live at the output path\nvar UserValue = 42\n"
		case "dir":
			p.Aux[f.path+"/keep.txt"] = "a directory occupies the output path\n"
		case "link":
			// a symbolic link to a user's file elsewhere in the tree occupies the (protected) path:
			// something is there, and neither the link nor the file behind it may change
			tgt := fmt.Sprintf("userfiles/linked_%d.go", len(p.Links))
			p.Aux[tgt] = "package userfiles\n\n// a user's file that the output path links to\nvar Linked = true\n"
			if p.Links == nil {
				p.Links = map[string]string{}
			}
			p.Links[f.path] = world.RootPlaceholder + "/" + tgt
		case "full":
			// the device behind this path is full: it opens, and every write fails with ENOSPC
			if p.Links == nil {
				p.Links = map[string]string{}
			}
			p.Links[f.path] = "/dev/full"
		}
	}
	cs.Tree = p.Tree()
	cs.Step = world.Step{Plan: plan, Env: env}
	return cs
}

func evalC10(c *core.Ctx, cs c10Case, id string) Outcome {
	out := Outcome{}
	if cs.Discard != "" {
		out.Discarded = true
		out.Tags = []string{"discarded-world"}
		return out
	}
	base := filepath.Join(c.Scratch, "w", id)
	root := filepath.Join(base, "root")
	defer world.RemoveAll(base)
	if err := cs.Tree.Materialise(root); err != nil {
		out.Trouble = err.Error()
		return out
	}
	before, err := world.Snap(root)
	if err != nil {
		out.Trouble = err.Error()
		return out
	}
	res := world.Run(c.Bin, root, base, cs.Step, 90*time.Second)
	out.Runs = 1
	if res.TimedOut {
		out.Trouble = "watchdog: child did not exit within 90s"
		return out
	}
	after, err := world.Snap(root)
	if err != nil {
		out.Trouble = err.Error()
		return out
	}
	out.Scheds = []string{res.OrderVector()}
	out.Key = core.HashStr(world.TreeDigest(cs.Tree), res.OrderVector(), cs.Fault)
	designated := map[string]bool{}
	for p := range cs.New {
		designated[p] = true
	}
	for _, p := range cs.Faulted {
		designated[p] = true
	}
	faulted := map[string]bool{}
	for _, p := range cs.Faulted {
		faulted[p] = true
	}
	isAncestorOfDesignated := func(p string) bool {
		for d := range designated {
			if strings.HasPrefix(d, p+"/") {
				return true
			}
		}
		return false
	}
	underDesignatedDir := func(p string) (string, bool) {
		for d := range designated {
			if cs.Init[d] == "dir" && strings.HasPrefix(p, d+"/") {
				return d, true
			}
		}
		return "", false
	}
	mk := func(clause, path, exp, obs string) Outcome {
		trig := "init=" + cs.Init[path] + ",force=" + fmt.Sprint(cs.Force[path]) + "@" + cs.ForceLevel
		if !designated[path] {
			trig = "bystander"
		}
		out.Sig = &core.Signature{Clause: clause, Site: "fault=" + cs.Fault, Trigger: trig}
		out.Expected = exp
		out.Observed = fmt.Sprintf("%s [path %s; exit %d; policy %s; stderr tail: %s]", obs, path, res.Exit, cs.Step.Plan.Schedule.Policy, tail(res.Stderr, 300))
		return out
	}
	newHash := func(p string) string { return world.HashBytes([]byte(cs.New[p])) }
	// O1: no stray write
	for _, d := range world.Diff(before, after) {
		kind, p, _ := strings.Cut(d, ":")
		if designated[p] {
			continue
		}
		if dd, ok := underDesignatedDir(p); ok {
			return mk("O5-directory-obstacle-modified", dd, "a directory occupying an output path keeps its contents", d)
		}
		if kind == "added" && after[p].Kind == "dir" && isAncestorOfDesignated(p) {
			continue
		}
		return mk("O1-stray-write", p, "only designated output files (and their parent directories) are created or modified", d)
	}
	written, refused, replaced, preexisting := 0, 0, 0, 0
	for _, p := range core.SortedKeys(designated) {
		b, hadB := before[p]
		a, hasA := after[p]
		same := hadB == hasA && b == a
		isNew := hasA && a.Kind == "file" && a.Hash == newHash(p) && cs.New[p] != ""
		if hadB {
			preexisting++
		}
		// O3: complete old or complete new
		if !same && !isNew {
			obs := "absent"
			if hasA {
				obs = a.Kind + " " + a.Hash[:min(12, len(a.Hash))]
				if a.Kind == "file" {
					bs, _ := world.ReadRegular(filepath.Join(root, p))
					obs += fmt.Sprintf(" (%d bytes, starts %q)", len(bs), tailStr(string(bs), 80))
				}
			}
			return mk("O3-neither-old-nor-new", p, "the path holds exactly its previous state or exactly the complete new content", "after the run: "+obs)
		}
		if !same {
			written++
			if hadB {
				replaced++
			}
		}
		// O4: a file whose production failed keeps its previous state
		if faulted[p] && !same {
			return mk("O4-faulted-file-changed", p, "a file whose production fails at a stage keeps its previous content or absence", "the path was changed")
		}
		// O2: no replacement without force-file-write
		if hadB && !cs.Force[p] {
			if !same {
				return mk("O2-clobbered-without-force", p, "an existing path is replaced only when force-file-write is true", "existing "+b.Kind+" was replaced")
			}
			refused++
		}
	}
	// O2 (status): an existing path that may not be overwritten makes the run fail — unless the
	// run already failed for the injected fault before reaching it.
	blocked := 0
	for p := range designated {
		if _, had := before[p]; had && (!cs.Force[p] || cs.Init[p] == "dir") {
			blocked++
		}
	}
	if res.Exit == 0 {
		// W1: a disk-full path that may be overwritten is opened and the write fails (ENOSPC)
		for _, p := range core.SortedKeys(designated) {
			if cs.Init[p] == "full" && cs.Force[p] {
				return mk("W1-exit-0-although-the-write-failed", p, "a run that could not write an output file (no space left on device) fails", "exit 0")
			}
		}
		if blocked > 0 {
			return mk("O2-exit-0-despite-existing-file", firstBlocked(designated, before, cs), "the run fails when an existing output path may not be overwritten", "exit 0")
		}
		if cs.Fault == "none" || len(cs.Faulted) == 0 {
			for _, p := range core.SortedKeys(designated) {
				if a, ok := after[p]; !ok || a.Hash != newHash(p) {
					return mk("F1-exit-0-but-not-new", p, "a successful run leaves the complete new content at every output path", "path does not hold the new content")
				}
			}
		}
	}
	if res.Panicked() {
		out.Tags = append(out.Tags, "child-panicked")
	}
	out.Tags = append(out.Tags, "fault:"+cs.Fault, fmt.Sprintf("exit:%d", min(res.Exit, 3)), "force-level:"+cs.ForceLevel)
	for _, st := range cs.Init {
		out.Tags = append(out.Tags, "init:"+st)
	}
	if cs.Fault != "none" && res.Exit != 0 && strings.Contains(res.Stderr, c10Marker(cs.Fault)) {
		out.Tags = append(out.Tags, "stage-fault-fired:"+cs.Fault)
		if written > 0 {
			out.Tags = append(out.Tags, "probe:file_written_before_fault")
		} else {
			out.Tags = append(out.Tags, "probe:nothing_written_before_failure")
		}
	}
	if refused > 0 && res.Exit != 0 {
		out.Tags = append(out.Tags, "probe:existing_path_refused")
	}
	if res.Exit != 0 && strings.Contains(res.Stderr, "no space left on device") {
		out.Tags = append(out.Tags, "fault:write-ENOSPC-fired")
	}
	if replaced > 0 {
		out.Tags = append(out.Tags, "probe:existing_path_replaced")
	}
	for _, e := range res.Events {
		if e.Ev == "http" {
			out.Tags = append(out.Tags, "http-fired:"+e.Kind)
		}
	}
	fired := cs.Fault != "none" && res.Exit != 0 && strings.Contains(res.Stderr, c10Marker(cs.Fault))
	out.Nontrivial = len(designated) >= 2 && preexisting >= 1 && (fired || (refused > 0 && res.Exit != 0) || replaced > 0)
	return out
}

// c10Marker is the diagnostic by which the stage that failed is recognised (evidence only).
func c10Marker(fault string) string {
	switch {
	case strings.HasPrefix(fault, "retrieval"):
		return "downloading template"
	case strings.HasPrefix(fault, "schema"):
		return "validating schema"
	case strings.HasPrefix(fault, "exec"):
		return "executing template"
	case fault == "format-unknown-formatter":
		return "unknown formatter"
	case strings.HasPrefix(fault, "format"):
		return "formatting mock file"
	}
	return "\x00"
}

func firstBlocked(designated map[string]bool, before world.Snapshot, cs c10Case) string {
	for _, p := range core.SortedKeys(designated) {
		if _, had := before[p]; had && (!cs.Force[p] || cs.Init[p] == "dir") {
			return p
		}
	}
	return ""
}

func RunC10(c *core.Ctx) int {
	c.PrepareRepo(true)
	nWorlds, perWorld := 24, 33
	budget := 20 * time.Minute // quick: the case count is the contract, the clock only a watchdog
	if c.Tier == "thorough" {
		nWorlds, perWorld = 200, 66
		budget = 28 * time.Minute
	}
	worlds := core.ParallelMap(c.Jobs, nWorlds, func(i int) *c10World {
		w := c10GenWorld(core.Stream(c.Seed, "c10-world", i))
		w.prepare(c, fmt.Sprintf("prep%d", i))
		return w
	})
	policies := []string{"asc", "desc", "random"}
	cp := &Campaign[c10Case]{C: c, Engine: "W", N: nWorlds * perWorld, Budget: budget,
		Gen: func(i int) c10Case {
			wi, k := i/perWorld, i%perWorld
			r := core.Stream(c.Seed, "c10-case", wi, k/3) // the same (fault, init, force) under three policies
			fault := c10Faults[(k/3)%len(c10Faults)]
			cs := worlds[wi].build(r, fault, policies[k%3], 1999+k)
			return cs
		},
		Eval: func(cs c10Case, id string) Outcome {
			o := evalC10(c, cs, id)
			if o.Sample == nil && cs.Discard == "" {
				o.Sample = map[string]any{"fault": cs.Fault, "faulted": cs.Faulted, "init": cs.Init, "force": cs.Force, "force_level": cs.ForceLevel, "policy": cs.Step.Plan.Schedule.Policy, "config": cs.Tree.Files[".mockery.yml"]}
			}
			return o
		},
		Shrink: func(cs c10Case, fails func(c10Case) bool, deadline time.Time) (c10Case, string) {
			note := ""
			for _, pol := range []string{"asc", "desc"} {
				if cs.Step.Plan.Schedule.Policy == "random" {
					cand := cs
					cand.Step.Plan.Schedule.Policy = pol
					if fails(cand) {
						cs = cand
						note += "schedule random→" + pol + "; "
						break
					}
				}
			}
			// drop bystanders (never sources, config, designated paths)
			n0 := len(cs.Tree.Files)
			keep := func(p string) bool {
				if keepCore(p) || strings.HasSuffix(p, ".go") && !strings.HasPrefix(p, "mocks/") {
					return true
				}
				for d := range cs.New {
					if p == d || strings.HasPrefix(p, d+"/") {
						return true
					}
				}
				return strings.HasPrefix(p, "templates/")
			}
			t, tries := shrinkTreeFiles(cs.Tree, keep, func(t world.Tree) bool { cand := cs; cand.Tree = t; return fails(cand) }, deadline, 40)
			cs.Tree = t
			return cs, note + fmt.Sprintf("files %d→%d (%d re-evaluations)", n0, len(t.Files), tries)
		},
	}
	res := cp.Run()
	rep := c.InstrReport()
	fk := append([]string(nil), c10Faults...)
	sort.Strings(fk)
	cov := map[string]any{
		"rule":               "one evaluation = one child run of the instrumented mockery on (world, initial-state vector of the output paths, force-file-write placement, one stage fault aimed at one file or none, map-iteration policy); each (world, fault, init, force) is run under asc, desc and a seeded random order so that the faulted file is reached first, in the middle and last; non-trivial = ≥2 output files, ≥1 pre-existing, and a stage fault fired or an existing path was refused/replaced; distinct = hash(tree digest, order-decision vector, fault)",
		"worlds":             nWorlds,
		"stage_faults":       fk,
		"initial_states":     []string{"absent", "old (generated by the same binary, other structname)", "user content", "directory with a file inside"},
		"force_levels":       []string{"unset", "environment", "root", "package", "interface (uniform or mixed within a file)"},
		"reference_runs":     2 * nWorlds,
		"instrumented_sites": rep.RangeSites,
		"components":         map[string]any{"real": []string{"mockery CLI (all packages)", "go list", "tmpfs"}, "instrumented": []string{fmt.Sprintf("%d map-range sites", len(rep.RangeSites)), "time.Now", "os.Getpid"}, "stub": []string{"HTTP origins (scripted RoundTripper)"}},
	}
	return res.Finish(c, "fault_enumeration", cov, []string{
		"the complete new content of a path is obtained differentially from a fault-free reference run of the same binary on a pristine tree",
		"write errors, torn writes and crashes inside WriteFile are outside the statement and not injected",
	}, "snapshot oracles held")
}

func init() {
	Runners["C10"] = RunC10
	registerReplayer[c10Case]("C10", func(c *core.Ctx) { c.PrepareRepo(true) }, evalC10)
}
