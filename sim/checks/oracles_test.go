package checks

import "testing"

// The oracle's own semver precedence must reproduce the chain given in semver.org §11.
func TestSemverPrecedenceChain(t *testing.T) {
	chain := []string{"1.0.0-alpha", "1.0.0-alpha.1", "1.0.0-alpha.beta", "1.0.0-beta", "1.0.0-beta.2", "1.0.0-beta.11", "1.0.0-rc.1", "1.0.0", "1.0.1", "1.2.0", "1.10.0", "2.0.0", "10.0.0"}
	for i := range chain {
		for j := range chain {
			a, b := parseSemver(chain[i]), parseSemver(chain[j])
			if !a.ok || !b.ok {
				t.Fatalf("cannot parse %s / %s", chain[i], chain[j])
			}
			if got, want := semverLess(a, b), i < j; got != want {
				t.Errorf("%s < %s: got %v, want %v", chain[i], chain[j], got, want)
			}
		}
	}
	if semverLess(parseSemver("v3.2.0+build.5"), parseSemver("v3.2.0")) || semverLess(parseSemver("v3.2.0"), parseSemver("v3.2.0+build.5")) {
		t.Error("build metadata must not affect precedence")
	}
	for _, bad := range []string{"v3", "v3.1", "banana", "v3.x.0", "v01.2.3", "v1.2.3.4", ""} {
		if parseSemver(bad).ok {
			t.Errorf("%q is not a full semantic version", bad)
		}
	}
}

// The schema evaluator of the C12 oracle on the family of schemas it generates.
func TestMiniSchema(t *testing.T) {
	s := miniSchema{Props: map[string]string{"owner": "string", "level": "integer", "strict": "boolean"}, Required: []string{"owner"}, NoExtra: true}
	cases := []struct {
		d    map[string]any
		want bool
	}{
		{map[string]any{"owner": "a"}, true},
		{map[string]any{"owner": "a", "level": 3, "strict": false}, true},
		{map[string]any{}, false},
		{map[string]any{"level": 3}, false},
		{map[string]any{"owner": 7}, false},
		{map[string]any{"owner": "a", "level": "3"}, false},
		{map[string]any{"owner": "a", "extra": 1}, false},
		{map[string]any{"owner": nil}, false},
	}
	for _, c := range cases {
		if got := s.conforms(c.d); got != c.want {
			t.Errorf("%v: got %v want %v", c.d, got, c.want)
		}
	}
	// compound keywords, verdicts written by hand from the JSON-schema specification
	one := miniSchema{Props: map[string]string{"prefix": "string", "suffix": "string", "level": "integer"}, OneOf: [][]string{{"prefix"}, {"suffix"}}, NoExtra: true}
	anyNot := miniSchema{Props: map[string]string{"team": "string", "owner": "string", "legacy": "boolean"}, AnyOf: [][]string{{"team"}, {"owner"}}, Not: []string{"legacy"}, NoExtra: true}
	for _, c := range []struct {
		s    miniSchema
		d    map[string]any
		want bool
	}{
		{one, map[string]any{"prefix": "p"}, true},
		{one, map[string]any{"suffix": "s", "level": 2}, true},
		{one, map[string]any{"prefix": "p", "suffix": "s"}, false}, // both branches: oneOf fails although every branch holds
		{one, map[string]any{"level": 2}, false},
		{one, map[string]any{}, false},
		{anyNot, map[string]any{"team": "t"}, true},
		{anyNot, map[string]any{"team": "t", "owner": "o"}, true},
		{anyNot, map[string]any{}, false},
		{anyNot, map[string]any{"owner": "o", "legacy": false}, false},
	} {
		if got := c.s.conforms(c.d); got != c.want {
			t.Errorf("%v: got %v want %v", c.d, got, c.want)
		}
	}
	open := miniSchema{Props: map[string]string{"owner": "string"}}
	if !open.conforms(map[string]any{"anything": []any{1}}) {
		t.Error("additionalProperties true accepts extra keys")
	}
}
