package checks

import (
	"encoding/json"
	"fmt"
	"path/filepath"
	"sort"
	"strings"
	"time"

	"verif/sim/core"
	"verif/sim/world"
)

// ---------------------------------------------------------------------------------------------
// C06 — generation is deterministic and idempotent.
//
// Oracle (no model of mockery's semantics): (I1) all k runs of one world exit with the same
// status; (I2) if that status is 0 all k result trees are identical; (I3) re-running over a
// result tree (overwriting enabled) exits 0 and leaves the tree identical.

type c06Case struct {
	Tree    world.Tree   `json:"tree"`
	Steps   []world.Step `json:"steps"`   // k independent runs on fresh copies
	History []world.Step `json:"history"` // re-runs on the result tree of step 0
	Note    string       `json:"note,omitempty"`
}

type c06Outcome struct {
	Sig        *core.Signature
	Expected   string
	Observed   string
	Runs       int
	Exit0      bool
	MultiSites int
	OrderVecs  []string
	Discarded  bool
	Trouble    string
	Digest     string
	ExitCodes  []int
	Files      int
	Features   []string
}

func c06Templates(r *core.Rng) string { return core.Pick(r, []string{"testify", "testify", "matryer"}) }

// genC06World builds one project biased to the constructs C06's anchors name.
func genC06World(r *core.Rng) (*world.Project, []string) {
	var feats []string
	o := world.GenOpts{MinPkgs: 2, MaxPkgs: 5, MaxIfacesPerPkg: 3, AllowXRef: true, DupNames: r.Chance(1, 4)}
	recursiveMode := r.Chance(1, 2)
	if recursiveMode {
		o.Layout = core.Pick(r, world.NestedLayouts)
	}
	pkgs := world.GenPackages(r, o)
	if o.DupNames {
		feats = append(feats, "same-interface-names-across-packages")
	}
	p := &world.Project{Module: "example.com/w", Pkgs: pkgs, Aux: map[string]string{}}
	cfg := world.NewY()
	cfg.Set("force-file-write", true)
	cfg.Set("template", c06Templates(r))
	cfg.Set("formatter", core.Pick(r, []string{"goimports", "gofmt", "noop", "noop"}))
	placement := core.Pick(r, []string{"inpkg", "inpkg-test", "separate", "separate-flat", "default", "separate-structname-file"})
	feats = append(feats, "place:"+placement)
	switch placement {
	case "inpkg":
		cfg.Set("dir", "{{.InterfaceDir}}")
		cfg.Set("filename", "zz_mocks.go")
		cfg.Set("pkgname", "{{.SrcPackageName}}")
	case "inpkg-test":
		cfg.Set("dir", "{{.InterfaceDir}}")
		cfg.Set("filename", "mocks_test.go")
		cfg.Set("pkgname", "{{.SrcPackageName}}_test")
	case "separate":
		cfg.Set("dir", "mocks/{{.SrcPackagePath}}")
		cfg.Set("filename", "mocks.go")
		cfg.Set("pkgname", "mocks")
	case "separate-structname-file":
		// a templated value that needs two passes of the fixpoint (StructName is itself templated)
		cfg.Set("dir", "mocks/{{.SrcPackagePath}}")
		cfg.Set("filename", "mock_{{.StructName}}.go")
		cfg.Set("pkgname", "mocks")
	case "separate-flat":
		cfg.Set("dir", "allmocks")
		cfg.Set("filename", "{{.SrcPackageName}}_{{.InterfaceName | snakecase}}.go")
		cfg.Set("pkgname", "allmocks")
	}
	if r.Chance(1, 2) {
		td := world.NewY()
		if r.Bool() {
			td.Set("unroll-variadic", r.Bool())
		}
		if r.Bool() {
			td.Set("mock-build-tags", "!nomock")
		}
		if len(td.Items) > 0 {
			cfg.Set("template-data", td)
			feats = append(feats, "root-template-data")
		}
	}
	pk := cfg.Sub("packages")
	dirs := map[string]bool{}
	for _, q := range pkgs {
		dirs[q.Dir] = true
	}
	listed := map[string]bool{}
	if recursiveMode {
		// list ancestors with recursive: true and distinguishable settings at each level
		feats = append(feats, "recursive")
		for i, q := range pkgs {
			hasChild := false
			for d := range dirs {
				if strings.HasPrefix(d, q.Dir+"/") {
					hasChild = true
				}
			}
			if !hasChild && r.Chance(2, 3) {
				continue
			}
			e := pk.Sub("example.com/w/" + q.Dir)
			c := e.Sub("config")
			c.Set("all", true)
			if hasChild || r.Chance(1, 2) {
				// also on packages without sub-packages: legal, and it puts unrelated entries
				// between nested ones in the list of recursive packages
				c.Set("recursive", true)
			}
			// a distinguishing setting per listed level
			switch r.Intn(3) {
			case 0:
				c.Set("structname", fmt.Sprintf("L%d{{.InterfaceName}}", i))
			case 1:
				c.Set("structname", fmt.Sprintf("{{.Mock}}{{.InterfaceName}}V%d", i))
			case 2:
				// keep the default name but vary the template
				c.Set("template", c06Templates(r))
			}
			listed[q.Dir] = true
		}
		if len(listed) == 0 {
			e := pk.Sub("example.com/w/" + pkgs[0].Dir)
			e.Sub("config").Set("all", true).Set("recursive", true)
			listed[pkgs[0].Dir] = true
		}
	} else {
		for i, q := range pkgs {
			e := pk.Sub("example.com/w/" + q.Dir)
			names := q.AllIfaces(nil)
			if r.Chance(1, 2) {
				e.Sub("config").Set("all", true)
				if r.Chance(1, 3) {
					e.Sub("config").Set("structname", fmt.Sprintf("P%d{{.InterfaceName}}", i))
				}
			} else {
				ifs := e.Sub("interfaces")
				for j, n := range names {
					ic := ifs.Sub(n)
					if decl := q.FindIface(n); decl != nil && decl.XRefPath != "" && placement != "inpkg" && r.Chance(2, 3) {
						// (not with in-package non-test output: a mock whose parameter type was replaced
						// no longer satisfies matryer's `var _ Iface = &Mock{}` line, the package stops
						// compiling and the re-run fails at loading — a C01/C13 matter, not idempotence)
						// one source type replaced by two different targets, in two output files
						feats = append(feats, "replace-type-two-targets")
						var lst []any
						for k, target := range []string{"Thing2", "Thing3"} {
							y := world.NewY().Set("structname", fmt.Sprintf("%sRepl%d", n, k))
							switch placement {
							case "separate-flat":
								y.Set("filename", fmt.Sprintf("{{.SrcPackageName}}_%s_repl%d.go", strings.ToLower(n), k))
							case "inpkg":
								y.Set("filename", fmt.Sprintf("zz_repl%d_mocks.go", k))
							case "separate-structname-file":
							default:
								y.Set("filename", fmt.Sprintf("repl%d_mocks_test.go", k))
							}
							y.Sub("replace-type").Sub(decl.XRefPath).Sub("Thing").Set("pkg-path", decl.XRefPath).Set("type-name", target)
							lst = append(lst, y)
						}
						ic.Set("configs", lst)
						continue
					}
					if r.Chance(1, 3) {
						// several configs for one interface, landing in one or several files
						feats = append(feats, "multi-configs")
						var lst []any
						nc := r.Range(2, 3)
						for k := 0; k < nc; k++ {
							y := world.NewY().Set("structname", fmt.Sprintf("%sAlt%d%d", n, j, k))
							if r.Bool() && placement != "separate-flat" {
								y.Set("filename", fmt.Sprintf("alt%d_mocks_test.go", k))
								if placement == "inpkg" {
									y.Set("filename", fmt.Sprintf("zz_alt%d_mocks.go", k))
								}
							}
							if placement == "separate-flat" {
								y.Set("filename", fmt.Sprintf("{{.SrcPackageName}}_%s_alt%d.go", strings.ToLower(n), k))
							}
							lst = append(lst, y)
						}
						ic.Set("configs", lst)
					} else if r.Chance(1, 3) {
						ic.Sub("config").Set("structname", fmt.Sprintf("I%d%s", j, n))
					}
				}
			}
			listed[q.Dir] = true
		}
	}
	// The matryer template imports "fmt" without using it; only goimports removes it. With
	// gofmt/noop the mock does not compile (a C01 matter, not claimed), and an in-package
	// non-test mock that does not compile makes the *re-run* fail at package loading. That
	// must not be booked as non-idempotence, so this combination is not generated.
	if placement == "inpkg" && strings.Contains(cfg.String(), "matryer") {
		cfg.Set("formatter", "goimports")
	}
	p.Config = cfg
	return p, feats
}

func c06Plans(r *core.Rng, k int) []world.Step {
	var steps []world.Step
	for j := 0; j < k; j++ {
		var pol string
		rot := 0
		switch {
		case j == 0:
			pol = "asc"
		case j == 1:
			pol = "desc"
		case j%3 == 2:
			pol = "random"
		case j%3 == 0:
			pol = "rotate"
			rot = 1 + j/3
		default:
			pol = "random"
		}
		steps = append(steps, world.Step{Plan: world.Plan(pol, r.Uint64(), rot, 1990+7*j, 1000+j*37)})
	}
	return steps
}

func evalC06(c *core.Ctx, cs *c06Case, id string) c06Outcome {
	out := c06Outcome{}
	base := filepath.Join(c.Scratch, "w", id)
	defer world.RemoveAll(base)
	var digests []string
	var firstSnap world.Snapshot
	var results []world.StepResult
	for j, st := range cs.Steps {
		root := filepath.Join(base, "root") // same absolute path for every run: paths may be embedded in output
		world.RemoveAll(root)
		if err := cs.Tree.Materialise(root); err != nil {
			out.Trouble = err.Error()
			return out
		}
		res := world.Run(c.Bin, root, base, st, 90*time.Second)
		out.Runs++
		if res.TimedOut {
			out.Trouble = "watchdog: child did not exit within 90s"
			return out
		}
		results = append(results, res)
		out.ExitCodes = append(out.ExitCodes, res.Exit)
		out.OrderVecs = append(out.OrderVecs, res.OrderVector())
		if ms := res.MultiKeySites(); ms > out.MultiSites {
			out.MultiSites = ms
		}
		snap, err := world.Snap(root)
		if err != nil {
			out.Trouble = err.Error()
			return out
		}
		digests = append(digests, snap.Digest())
		if j == 0 {
			firstSnap = snap
		}
		if res.Exit != results[0].Exit {
			out.Sig = &core.Signature{Clause: "I1-exit-status-differs-across-runs", Site: divergingSite(results[0], res), Trigger: triggerC06(cs)}
			out.Expected = fmt.Sprintf("exit %d as in run 0 (%s)", results[0].Exit, cs.Steps[0].Plan.Schedule.Policy)
			out.Observed = fmt.Sprintf("run %d (%s) exit %d; stderr tail: %s", j, st.Plan.Schedule.Policy, res.Exit, tail(res.Stderr, 400))
			return out
		}
		if res.Exit == 0 && digests[j] != digests[0] {
			out.Sig = &core.Signature{Clause: "I2-tree-differs-across-runs", Site: divergingSite(results[0], res), Trigger: triggerC06(cs)}
			out.Expected = "identical result tree in every successful run"
			out.Observed = fmt.Sprintf("run %d (%s) differs from run 0 (%s): %s", j, st.Plan.Schedule.Policy, cs.Steps[0].Plan.Schedule.Policy, strings.Join(world.Diff(firstSnap, snap), ", "))
			return out
		}
	}
	out.Exit0 = results[0].Exit == 0
	out.Digest = digests[0]
	out.Files = len(firstSnap)
	if !out.Exit0 {
		return out
	}
	// history: re-run over own output, on the tree left by the last run
	root := filepath.Join(base, "root")
	prev, _ := world.Snap(root)
	for h, st := range cs.History {
		res := world.Run(c.Bin, root, base, st, 90*time.Second)
		out.Runs++
		if res.TimedOut {
			out.Trouble = "watchdog: child did not exit within 90s"
			return out
		}
		snap, _ := world.Snap(root)
		if res.Exit != 0 {
			out.Sig = &core.Signature{Clause: "I3-rerun-over-own-output-fails", Site: "rerun", Trigger: triggerC06(cs)}
			out.Expected = "re-run over own output exits 0"
			out.Observed = fmt.Sprintf("re-run %d exit %d; stderr tail: %s", h, res.Exit, tail(res.Stderr, 600))
			return out
		}
		if snap.Digest() != prev.Digest() {
			out.Sig = &core.Signature{Clause: "I3-rerun-changes-tree", Site: "rerun", Trigger: triggerC06(cs)}
			out.Expected = "re-run over own output leaves the tree byte-identical"
			out.Observed = fmt.Sprintf("re-run %d changed: %s", h, strings.Join(world.Diff(prev, snap), ", "))
			return out
		}
	}
	return out
}

// divergingSite names the first map-order site at which two runs took different decisions.
func divergingSite(a, b world.StepResult) string {
	var ea, eb []world.Event
	for _, e := range a.Events {
		if e.Ev == "order" {
			ea = append(ea, e)
		}
	}
	for _, e := range b.Events {
		if e.Ev == "order" {
			eb = append(eb, e)
		}
	}
	for i := 0; i < len(ea) && i < len(eb); i++ {
		if ea[i].Site != eb[i].Site || fmt.Sprint(ea[i].Perm) != fmt.Sprint(eb[i].Perm) {
			return ea[i].Site
		}
	}
	return "no-order-divergence"
}

// triggerC06 classifies the case by named predicates over its config text.
func triggerC06(cs *c06Case) string {
	cfg := ""
	for p, s := range cs.Tree.Files {
		if strings.HasSuffix(p, ".mockery.yml") || strings.HasSuffix(p, ".mockery.yaml") {
			cfg = s
		}
	}
	nrec := strings.Count(cfg, `"recursive": true`)
	var t []string
	switch {
	case nrec >= 2:
		t = append(t, "nested-recursive-ancestors")
	case nrec == 1:
		t = append(t, "one-recursive-package")
	default:
		t = append(t, "no-recursive")
	}
	return strings.Join(t, ",")
}

func tail(s string, n int) string {
	s = strings.TrimSpace(s)
	if len(s) > n {
		s = "…" + s[len(s)-n:]
	}
	return s
}

func RunC06(c *core.Ctx) int {
	c.PrepareRepo(true)
	nWorlds, k := 60, 4
	budget := 150 * time.Second
	if c.Tier == "thorough" {
		nWorlds, k = 1500, 12
		budget = 25 * time.Minute
	}
	known := c.LoadKnown()
	knownSeen := core.NewCounter()
	feats := core.NewCounter()
	type item struct {
		cs  *c06Case
		out c06Outcome
	}
	deadline := c.Start.Add(budget)
	// warm the go list cache with one world so that the first parallel wave is not 16× cold
	batch := c.Jobs * 2
	var all []item
	violations := 0
	var firstViolation *item
	for start := 0; start < nWorlds && time.Now().Before(deadline) && firstViolation == nil; start += batch {
		n := batch
		if start+n > nWorlds {
			n = nWorlds - start
		}
		res := core.ParallelMap(c.Jobs, n, func(i int) item {
			wi := start + i
			r := core.Stream(c.Seed, "c06-world", wi)
			proj, fs := genC06World(r)
			cs := &c06Case{Tree: proj.Tree(), Steps: c06Plans(core.Stream(c.Seed, "c06-sched", wi), k)}
			hr := core.Stream(c.Seed, "c06-hist", wi)
			cs.History = []world.Step{
				{Plan: world.Plan("random", hr.Uint64(), 0, 2031, 77)},
				{Plan: world.Plan("desc", hr.Uint64(), 0, 1971, 78)}, // clock jumps backwards
			}
			o := evalC06(c, cs, fmt.Sprintf("w%d", wi))
			o.Features = fs
			return item{cs, o}
		})
		for i := range res {
			it := res[i]
			if it.out.Trouble != "" {
				core.Troublef("C06 world %d: %s", start+i, it.out.Trouble)
			}
			all = append(all, it)
			for _, f := range it.out.Features {
				feats.Inc(f)
			}
			if it.out.Sig != nil {
				if kf := core.IsKnown(known, *it.out.Sig); kf != nil {
					knownSeen.Inc(kf.What)
					continue
				}
				violations++
				if firstViolation == nil {
					firstViolation = &res[i]
				}
			}
		}
	}
	// evidence
	evals, exit0 := 0, 0
	distinct := map[string]bool{}
	scheds := map[string]bool{}
	var samples []any
	for i, it := range all {
		evals += it.out.Runs
		if it.out.Exit0 {
			exit0++
		}
		vecs := map[string]bool{}
		for _, v := range it.out.OrderVecs {
			vecs[v] = true
			scheds[v] = true
		}
		if it.out.MultiSites >= 2 && len(vecs) >= 2 {
			distinct[it.out.Digest+core.HashStr(sortedSet(vecs)...)] = true
		}
		if i < 2 {
			samples = append(samples, map[string]any{
				"config": it.cs.Tree.Files[".mockery.yml"], "files": core.SortedKeys(it.cs.Tree.Files),
				"schedules": policies(it.cs.Steps), "exit_codes": it.out.ExitCodes, "result_digest": it.out.Digest, "features": it.out.Features,
			})
		}
	}
	rep := c.InstrReport()
	cov := map[string]any{
		"evaluations": evals, "distinct_nontrivial": len(distinct),
		"rule":                 "one evaluation = one child run of the instrumented mockery on a fresh copy of a generated world under one seeded map-iteration schedule, clock and pid (plus 2 re-runs over the result tree); a world is non-trivial when ≥2 instrumented range sites saw ≥2 keys and its runs took ≥2 different order-decision vectors; distinct = hash(result digest, set of decision vectors)",
		"samples":              samples,
		"worlds":               len(all),
		"worlds_exit0":         exit0,
		"runs_per_world":       k,
		"distinct_schedules":   len(scheds),
		"schedule_measure":     "distinct vectors of (site, call#, permutation) over all instrumented map-range sites of one run",
		"features":             feats.Map(),
		"faults_fired":         map[string]int{"map-order-permuted": len(scheds), "clock-years-apart": evals, "clock-jump-backwards": exit0, "pid-varied": evals},
		"instrumented_sites":   rep.RangeSites,
		"unseamed_sites":       rep.Unseamed,
		"known_findings_seen":  knownSeen.Map(),
		"simulated_clock_span": "1990..2074 across runs of one world; history re-runs at 2031 then 1971",
		"components":           map[string]any{"real": []string{"mockery CLI (all packages)", "go list", "tmpfs"}, "instrumented": []string{fmt.Sprintf("%d map-range sites", len(rep.RangeSites)), "time.Now", "os.Getpid"}, "stub": []string{"HTTP origins (unused here)"}},
		"exhaustive":           false,
	}
	if firstViolation != nil {
		path := reportC06(c, firstViolation.cs, firstViolation.out)
		c.WriteEvidence("exploration", cov, c06Assumptions, violations)
		fmt.Printf("VIOLATION property=C06 replay=%s\n", path)
		fmt.Printf("  clause: %s\n  expected: %s\n  observed: %s\n", firstViolation.out.Sig, firstViolation.out.Expected, firstViolation.out.Observed)
		return core.ExitViolation
	}
	{
		sres := &CampaignResult{Cases: len(all), Distinct: distinct, Scheds: scheds, Tags: feats, Unrepro: 0}
		writeSummary(c, sres)
	}
	rc := replayKnown(c, known)
	c.WriteEvidence("exploration", cov, c06Assumptions, 0)
	fmt.Printf("C06 %s: %d worlds, %d runs, %d exit-0 worlds, %d non-trivial, %d distinct schedules, 0 violations\n", c.Tier, len(all), evals, exit0, len(distinct), len(scheds))
	return rc
}

var c06Assumptions = []string{
	"dependencies of mockery (koanf, yaml, mapstructure, x/tools, go list) run un-instrumented; the determinism self-test measures whether anything escapes the seam",
	"every order the seam produces is one Go's map iteration may produce, so a disagreement under the seam is a behaviour of the shipped binary",
}

func policies(steps []world.Step) []string {
	var o []string
	for _, s := range steps {
		o = append(o, s.Plan.Schedule.Policy)
	}
	return o
}

func sortedSet(m map[string]bool) []string {
	var o []string
	for k := range m {
		o = append(o, k)
	}
	sort.Strings(o)
	return o
}

// reportC06 minimises and writes the replay file.
func reportC06(c *core.Ctx, cs *c06Case, out c06Outcome) string {
	best := *cs
	sig := *out.Sig
	fails := func(cand *c06Case) bool {
		o := evalC06(c, cand, "min")
		return o.Sig != nil && *o.Sig == sig
	}
	deadline := time.Now().Add(120 * time.Second)
	tries := 0
	// 1. keep only two runs (0 and the diverging one), prefer asc/desc
	if strings.HasPrefix(sig.Clause, "I1") || strings.HasPrefix(sig.Clause, "I2") {
		for j := 1; j < len(best.Steps) && time.Now().Before(deadline); j++ {
			cand := best
			cand.Steps = []world.Step{best.Steps[0], best.Steps[j]}
			cand.History = nil
			tries++
			if fails(&cand) {
				best = cand
				break
			}
		}
	} else {
		cand := best
		cand.Steps = best.Steps[:1]
		tries++
		if fails(&cand) {
			best = cand
		}
	}
	// 2. drop files that are not needed (source files of other packages, aux files)
	for _, p := range core.SortedKeys(best.Tree.Files) {
		if time.Now().After(deadline) || tries > 200 {
			break
		}
		if p == "go.mod" || p == "go.sum" || strings.HasSuffix(p, ".mockery.yml") {
			continue
		}
		cand := best
		cand.Tree = best.Tree.Clone()
		delete(cand.Tree.Files, p)
		tries++
		if fails(&cand) {
			best = cand
		}
	}
	o := evalC06(c, &best, "final")
	if o.Sig == nil || *o.Sig != sig {
		best = *cs
		o = out
	}
	b, _ := json.Marshal(best)
	rp := &core.Replay{Engine: "W", Signature: sig, Case: b, Expected: o.Expected, Observed: o.Observed,
		Minimised: fmt.Sprintf("files %d→%d, runs %d→%d (%d re-evaluations)", len(cs.Tree.Files), len(best.Tree.Files), len(cs.Steps), len(best.Steps), tries), Mode: "exact"}
	return c.WriteReplay(rp)
}

func ReplayC06(c *core.Ctx, rp *core.Replay) (bool, string) {
	var cs c06Case
	if err := json.Unmarshal(rp.Case, &cs); err != nil {
		core.Troublef("replay case: %v", err)
	}
	o := evalC06(c, &cs, "replay")
	if o.Trouble != "" {
		core.Troublef("%s", o.Trouble)
	}
	if o.Sig != nil {
		return true, fmt.Sprintf("%s\n  expected: %s\n  observed: %s", o.Sig, o.Expected, o.Observed)
	}
	return false, ""
}
