package checks

import (
	"encoding/json"
	"fmt"
	"os"
	"path/filepath"
	"sort"
	"strings"
	"time"

	"verif/sim/core"
	"verif/sim/simrt"
	"verif/sim/world"
)

// ---------------------------------------------------------------------------------------------
// C12 — template-data is validated against the template's JSON schema at every level.
//
// Worlds of 1–3 packages, each with a template (built-in / file:// / http:// / https://), a
// schema location (default or explicit), a schema availability (ok or one retrieval fault), a
// require-template-schema-exists setting and template-data placed at one or two of the four
// levels. A small outcome model written from the statement says per output file whether it
// must be rejected, must be accepted, or is left open by the statement.

type miniSchema struct {
	Props    map[string]string `json:"props"` // key → JSON type
	Required []string          `json:"required"`
	NoExtra  bool              `json:"no_extra"`
	// compound keywords over "required" sets: exactly one / at least one of the sets must be
	// present; Not lists keys that must be absent
	OneOf [][]string `json:"one_of,omitempty"`
	AnyOf [][]string `json:"any_of,omitempty"`
	Not   []string   `json:"not,omitempty"`
}

func reqBranches(sets [][]string) []any {
	var out []any
	for _, set := range sets {
		out = append(out, map[string]any{"required": set})
	}
	return out
}

func (s miniSchema) branchCount(sets [][]string, d map[string]any) int {
	n := 0
	for _, set := range sets {
		all := true
		for _, k := range set {
			if _, ok := d[k]; !ok {
				all = false
			}
		}
		if all {
			n++
		}
	}
	return n
}

func (s miniSchema) JSON() string {
	props := map[string]any{}
	for k, t := range s.Props {
		props[k] = map[string]any{"type": t}
	}
	req := s.Required
	if req == nil {
		req = []string{}
	}
	doc := map[string]any{"$schema": "http://json-schema.org/draft-07/schema#", "type": "object", "additionalProperties": !s.NoExtra, "properties": props, "required": req}
	if len(s.OneOf) > 0 {
		doc["oneOf"] = reqBranches(s.OneOf)
	}
	if len(s.AnyOf) > 0 {
		doc["anyOf"] = reqBranches(s.AnyOf)
	}
	if len(s.Not) > 0 {
		doc["not"] = map[string]any{"anyOf": reqBranches(func() (o [][]string) {
			for _, k := range s.Not {
				o = append(o, []string{k})
			}
			return
		}())}
	}
	b, _ := json.MarshalIndent(doc, "", "  ")
	return string(b)
}

func (s miniSchema) conforms(d map[string]any) bool {
	if len(s.OneOf) > 0 && s.branchCount(s.OneOf, d) != 1 {
		return false
	}
	if len(s.AnyOf) > 0 && s.branchCount(s.AnyOf, d) == 0 {
		return false
	}
	for _, k := range s.Not {
		if _, ok := d[k]; ok {
			return false
		}
	}
	for _, k := range s.Required {
		if _, ok := d[k]; !ok {
			return false
		}
	}
	for k, v := range d {
		t, ok := s.Props[k]
		if !ok {
			if s.NoExtra {
				return false
			}
			continue
		}
		switch t {
		case "string":
			if _, ok := v.(string); !ok {
				return false
			}
		case "boolean":
			if _, ok := v.(bool); !ok {
				return false
			}
		case "integer":
			switch v.(type) {
			case int, int64:
			default:
				return false
			}
		default:
			return false
		}
	}
	return true
}

// loadBuiltinSchema reads a built-in template's schema from the tree under test and accepts
// only the constructs the mini evaluator implements (else: trouble, not a verdict).
func loadBuiltinSchema(c *core.Ctx, name string) (miniSchema, error) {
	b, err := os.ReadFile(filepath.Join(c.RepoCopy, "internal", "mock_"+name+".templ.schema.json"))
	if err != nil {
		return miniSchema{}, err
	}
	var raw struct {
		Type       string                    `json:"type"`
		Additional *bool                     `json:"additionalProperties"`
		Props      map[string]map[string]any `json:"properties"`
		Required   []string                  `json:"required"`
	}
	if err := json.Unmarshal(b, &raw); err != nil {
		return miniSchema{}, err
	}
	s := miniSchema{Props: map[string]string{}, Required: raw.Required, NoExtra: raw.Additional != nil && !*raw.Additional}
	if raw.Type != "object" {
		return s, fmt.Errorf("built-in schema %s: unsupported top-level type %q", name, raw.Type)
	}
	for k, p := range raw.Props {
		t, _ := p["type"].(string)
		if len(p) != 1 || (t != "string" && t != "boolean" && t != "integer") {
			return s, fmt.Errorf("built-in schema %s: property %s uses constructs the oracle does not implement: %v", name, k, p)
		}
		s.Props[k] = t
	}
	return s, nil
}

var c12Custom = []miniSchema{
	{Props: map[string]string{"owner": "string", "level": "integer", "strict": "boolean"}, Required: []string{"owner"}, NoExtra: true},
	{Props: map[string]string{"team": "string", "size": "integer"}, Required: []string{"team"}, NoExtra: true},
	{Props: map[string]string{"owner": "string", "level": "integer"}, Required: nil, NoExtra: false},
	// exactly one of prefix / suffix; at least one of team / owner; never both legacy keys' successor and the legacy key
	{Props: map[string]string{"prefix": "string", "suffix": "string", "level": "integer"}, OneOf: [][]string{{"prefix"}, {"suffix"}}, NoExtra: true},
	{Props: map[string]string{"team": "string", "owner": "string", "size": "integer", "legacy": "boolean"}, AnyOf: [][]string{{"team"}, {"owner"}}, Not: []string{"legacy"}, NoExtra: true},
	{Props: map[string]string{"a": "string", "b": "string", "c": "string"}, Required: []string{"a"}, OneOf: [][]string{{"b"}, {"c"}, {"a", "b"}}, NoExtra: false},
}

type c12Pkg struct {
	Dir       string                      `json:"dir"`
	Template  string                      `json:"template"`   // testify | matryer | file | http | https
	TemplURL  string                      `json:"templ_url"`  // for custom templates
	SchemaIdx int                         `json:"schema_idx"` // index into c12Custom (custom templates)
	SchemaLoc string                      `json:"schema_loc"` // default | explicit
	SchemaURL string                      `json:"schema_url"` // where the schema is looked for
	Avail     string                      `json:"avail"`      // ok | 404 | 500 | transport-error | truncated | empty | not-json | file-missing
	Require   string                      `json:"require"`    // unset | true | false
	PkgTD     map[string]any              `json:"pkg_td"`
	IfaceTD   map[string]map[string]any   `json:"iface_td"`   // iface → data in its `config`
	ConfigsTD map[string][]map[string]any `json:"configs_td"` // iface → data per `configs` entry
	Ifaces    []string                    `json:"ifaces"`
	OutFile   string                      `json:"out_file"`
	Verdict   string                      `json:"verdict"` // accept | reject | open
	Why       string                      `json:"why"`
}

type c12Case struct {
	Tree   world.Tree     `json:"tree"`
	Step   world.Step     `json:"step"`
	RootTD map[string]any `json:"root_td"`
	Pkgs   []c12Pkg       `json:"pkgs"`
}

func mergeTD(upper, lower map[string]any) map[string]any {
	out := map[string]any{}
	for k, v := range upper {
		out[k] = v
	}
	for k, v := range lower {
		out[k] = v
	}
	return out
}

func tdY(d map[string]any) *world.Y {
	y := world.NewY()
	for _, k := range core.SortedKeys(d) {
		y.Set(k, d[k])
	}
	return y
}

// c12Data draws template-data of one kind for a schema.
func c12Data(r *core.Rng, s miniSchema, kind string) map[string]any {
	d := map[string]any{}
	var keys []string
	for _, k := range core.SortedKeys(s.Props) {
		if k != "boilerplate-file" { // a conforming value would have to name an existing file; not needed here
			keys = append(keys, k)
		}
	}
	val := func(t string) any {
		switch t {
		case "string":
			return core.Pick(r, []string{"alpha", "beta", "!nomock"})
		case "boolean":
			return r.Bool()
		}
		return r.Range(1, 9)
	}
	wrong := func(t string) any {
		if r.Chance(1, 4) {
			return nil // YAML null is no string, integer or boolean
		}
		if t == "string" {
			return r.Range(1, 9)
		}
		return "seven"
	}
	for _, k := range s.Required {
		d[k] = val(s.Props[k])
	}
	for _, k := range keys {
		if r.Bool() {
			d[k] = val(s.Props[k])
		}
	}
	// make the draw satisfy the compound keywords (the kinds below then break one thing)
	compound := len(s.OneOf)+len(s.AnyOf)+len(s.Not) > 0
	if compound {
		for _, k := range s.Not {
			delete(d, k)
		}
		for tries := 0; tries < 40 && !s.conforms(d); tries++ {
			if len(s.OneOf) > 0 {
				keep := s.OneOf[r.Intn(len(s.OneOf))]
				for _, set := range s.OneOf {
					for _, k := range set {
						if !contains(keep, k) && !contains(s.Required, k) {
							delete(d, k)
						}
					}
				}
				for _, k := range keep {
					d[k] = val(s.Props[k])
				}
			}
			if len(s.AnyOf) > 0 && s.branchCount(s.AnyOf, d) == 0 {
				for _, k := range s.AnyOf[r.Intn(len(s.AnyOf))] {
					d[k] = val(s.Props[k])
				}
			}
		}
	}
	switch kind {
	case "compound-violated":
		switch {
		case len(s.OneOf) > 0 && r.Bool():
			// two branches at once: every sub-schema is satisfied, only the oneOf itself is not
			for _, set := range s.OneOf[:2] {
				for _, k := range set {
					d[k] = val(s.Props[k])
				}
			}
		case len(s.OneOf) > 0:
			for _, set := range s.OneOf {
				for _, k := range set {
					if !contains(s.Required, k) {
						delete(d, k)
					}
				}
			}
		case len(s.Not) > 0 && r.Bool():
			d[s.Not[0]] = val(s.Props[s.Not[0]])
		default:
			for _, set := range s.AnyOf {
				for _, k := range set {
					delete(d, k)
				}
			}
		}
	case "conforming":
	case "empty":
		d = map[string]any{}
	case "missing-required":
		if len(s.Required) > 0 {
			delete(d, s.Required[0])
		} else {
			d["undeclared-option"] = true
		}
	case "extra-key":
		d["undeclared-option"] = true
	case "wrong-type":
		k := core.Pick(r, keys)
		d[k] = wrong(s.Props[k])
	}
	return d
}

// c12TwoTemplates is a directed family: one package whose mocks land in several files rendered by
// different custom templates. The package-level template-data is one and the same for all those
// files, and it has to be validated against the schema of each file's own template: it conforms
// to the schema of the "plain" files and (in variant 0 and 1) violates the schema of the "strict"
// file, which therefore is rejected whatever the order in which the files are produced.
func c12TwoTemplates(r *core.Rng, policy string, variant, idx int) c12Case {
	names := []string{"Alpha", "Beta", "Gamma", "Delta"}
	var ifs []world.Iface
	for i, n := range names {
		ifs = append(ifs, world.Iface{Name: n, Methods: []int{(7 + i) % len(world.MethodPool)}})
	}
	p := &world.Project{Module: c09Mod, Pkgs: []world.Pkg{{Dir: "a", Name: "a", Files: []world.SrcFile{{Name: "a.go", Ifaces: ifs}}}}, Aux: map[string]string{}}
	plain := miniSchema{Props: map[string]string{}, NoExtra: false}
	strict := miniSchema{Props: map[string]string{"owner": "integer", "level": "integer"}, NoExtra: true}
	p.Aux["templates/plain.templ"] = probeTemplate
	p.Aux["templates/plain.templ.schema.json"] = plain.JSON()
	p.Aux["templates/strict.templ"] = probeTemplate
	p.Aux["templates/strict.templ.schema.json"] = strict.JSON()
	tp := "file://" + world.RootPlaceholder + "/templates/plain.templ"
	ts := "file://" + world.RootPlaceholder + "/templates/strict.templ"
	cfg := world.NewY()
	cfg.Set("dir", "mocks/{{.SrcPackagePath}}").Set("pkgname", "mocks").Set("formatter", "noop")
	e := cfg.Sub("packages").Sub(c09Mod + "/a")
	pc := e.Sub("config")
	pkgTD := map[string]any{"owner": "me"}
	// the interface that selects the strict template overrides the offending key, so its own
	// (merged) data conforms; only the file-level data — the package's — does not
	strictIfaceTD := map[string]any{"owner": 7}
	strictVerdict, why := "reject", "the file-level data of the strict file is the package's data, which its own template's schema rejects (owner is a string)"
	switch variant {
	case 1:
		strictIfaceTD = map[string]any{"owner": 7, "level": 3}
	case 2:
		// true negative: the package data suits both schemas
		pkgTD = map[string]any{"owner": 5}
		strictIfaceTD = map[string]any{"level": 3}
		strictVerdict, why = "accept", "conforming data is accepted"
	}
	pc.Set("template", tp).Set("filename", "plain_{{.InterfaceName}}.go")
	if len(pkgTD) > 0 {
		pc.Set("template-data", tdY(pkgTD))
	}
	strictIface := names[r.Intn(len(names))]
	var pkgs []c12Pkg
	for _, n := range names {
		ic := e.Sub("interfaces").Sub(n)
		cp := c12Pkg{Dir: "a", Ifaces: []string{n}, Template: "file", SchemaLoc: "default", Avail: "ok", Require: "unset", PkgTD: pkgTD, IfaceTD: map[string]map[string]any{}, ConfigsTD: map[string][]map[string]any{}}
		if n == strictIface {
			c := ic.Sub("config").Set("template", ts).Set("filename", "strict.go")
			if len(strictIfaceTD) > 0 {
				c.Set("template-data", tdY(strictIfaceTD))
				cp.IfaceTD[n] = strictIfaceTD
			}
			cp.TemplURL, cp.SchemaURL, cp.OutFile, cp.Verdict, cp.Why = ts, ts+".schema.json", "mocks/"+c09Mod+"/a/strict.go", strictVerdict, why
		} else {
			cp.TemplURL, cp.SchemaURL, cp.OutFile, cp.Verdict, cp.Why = tp, tp+".schema.json", "mocks/"+c09Mod+"/a/plain_"+n+".go", "accept", "conforming data is accepted"
			if strictVerdict == "reject" {
				// whether files produced before or after the rejected one are written is not this property's business
				cp.Verdict, cp.Why = "open", "a sibling file of the run is rejected"
			}
		}
		pkgs = append(pkgs, cp)
	}
	p.Config = cfg
	plan := world.Plan(policy, r.Uint64(), r.Intn(3), 2003+idx%20, 700+idx%200)
	plan.HTTP = map[string][]simrt.Response{}
	return c12Case{Tree: p.Tree(), Step: world.Step{Plan: plan}, RootTD: map[string]any{}, Pkgs: pkgs}
}

func c12Gen(c *core.Ctx, r *core.Rng, builtin map[string]miniSchema, policy string, idx int) c12Case {
	o := world.GenOpts{MinPkgs: 2, MaxPkgs: 3, MaxIfacesPerPkg: 2}
	pkgs := world.GenPackages(r, o)
	nP := r.Range(1, len(pkgs))
	pkgs = pkgs[:nP]
	p := &world.Project{Module: c09Mod, Pkgs: pkgs, Aux: map[string]string{}}
	cfg := world.NewY()
	cfg.Set("dir", "mocks/{{.SrcPackagePath}}").Set("filename", "mocks.go").Set("pkgname", "mocks")
	cs := c12Case{RootTD: map[string]any{}}
	plan := world.Plan(policy, r.Uint64(), r.Intn(3), 2003+idx%20, 700+idx%200)
	plan.HTTP = map[string][]simrt.Response{}
	shareURL := r.Chance(1, 2) // packages with custom templates share one template URL
	sharedKind := core.Pick(r, []string{"file", "http", "https"})
	differSchema := shareURL && r.Chance(1, 2)
	allGood := r.Chance(2, 5) // swarm: worlds in which nothing is to be rejected, so V2 judges multi-package runs
	// directed family: one custom template and schema shared by all packages, validation switched
	// off for the first package only, the others carry data the schema rejects. Whatever the
	// order in which the files are produced, the others must be rejected.
	sharedFlagDiffers := nP >= 2 && r.Chance(1, 6)
	if sharedFlagDiffers {
		shareURL, differSchema, allGood = true, false, false
	}
	pk := cfg.Sub("packages")
	for i, q := range pkgs {
		e := pk.Sub(c09Mod + "/" + q.Dir)
		pc := e.Sub("config")
		cp := c12Pkg{Dir: q.Dir, Ifaces: q.AllIfaces(nil), OutFile: "mocks/" + c09Mod + "/" + q.Dir + "/mocks.go", IfaceTD: map[string]map[string]any{}, ConfigsTD: map[string][]map[string]any{}}
		cp.Template = core.Pick(r, []string{"testify", "matryer", "testify", "matryer", "file", "http", "https", "file", "http"})
		if sharedFlagDiffers {
			cp.Template = sharedKind // every package uses the shared custom template in this family
		}
		var schema miniSchema
		custom := cp.Template != "testify" && cp.Template != "matryer"
		if custom {
			kind := cp.Template
			name := fmt.Sprintf("probe%d.templ", i)
			if shareURL {
				kind, name = sharedKind, "shared.templ"
				cp.Template = kind
			}
			switch kind {
			case "file":
				cp.TemplURL = "file://" + world.RootPlaceholder + "/templates/" + name
				p.Aux["templates/"+name] = probeTemplate
			default:
				cp.TemplURL = kind + "://origin.test/t/" + name
				if r.Chance(1, 4) {
					cp.TemplURL += "?ref=main&raw=1" // the default schema location is still "template location plus .schema.json"
				}
				plan.HTTP[cp.TemplURL] = []simrt.Response{{Kind: "ok", Body: probeTemplate}}
			}
			cp.SchemaIdx = r.Intn(len(c12Custom))
			if shareURL && !differSchema {
				cp.SchemaIdx = 0
			}
			schema = c12Custom[cp.SchemaIdx]
			cp.SchemaLoc = core.Pick(r, []string{"default", "explicit"})
			if differSchema {
				cp.SchemaLoc = "explicit"
			}
			if sharedFlagDiffers {
				cp.SchemaLoc = "default"
			}
			cp.SchemaURL = cp.TemplURL + ".schema.json"
			if cp.SchemaLoc == "explicit" {
				skind := core.Pick(r, []string{"file", "http", "https"})
				sname := fmt.Sprintf("schema-p%d-s%d.json", i, cp.SchemaIdx)
				if skind == "file" {
					cp.SchemaURL = "file://" + world.RootPlaceholder + "/schemas/" + sname
				} else {
					cp.SchemaURL = skind + "://schemas.test/" + sname
				}
			}
			cp.Avail = core.Pick(r, []string{"ok", "ok", "ok", "ok", "404", "500", "transport-error", "truncated", "empty", "not-json", "redirect-ok", "redirect-loop"})
			if allGood || sharedFlagDiffers {
				cp.Avail = "ok"
			}
			if shareURL && !differSchema && cp.SchemaLoc == "default" && i > 0 {
				// same URL as an earlier package: one origin, one availability
				for _, prev := range cs.Pkgs {
					if prev.SchemaURL == cp.SchemaURL {
						cp.Avail = prev.Avail
					}
				}
			}
			if strings.HasPrefix(cp.SchemaURL, "file://") {
				rel := strings.TrimPrefix(cp.SchemaURL, "file://"+world.RootPlaceholder+"/")
				switch cp.Avail {
				case "ok":
					p.Aux[rel] = schema.JSON()
				case "empty":
					p.Aux[rel] = ""
				case "not-json", "truncated":
					cp.Avail = "not-json"
					p.Aux[rel] = schema.JSON()[:25]
				case "redirect-ok":
					cp.Avail = "ok"
					p.Aux[rel] = schema.JSON()
				default:
					cp.Avail = "file-missing"
				}
			} else {
				body := schema.JSON()
				switch cp.Avail {
				case "ok":
					plan.HTTP[cp.SchemaURL] = []simrt.Response{{Kind: "ok", Body: body}}
				case "404":
					plan.HTTP[cp.SchemaURL] = []simrt.Response{{Kind: "status", Status: 404, Body: "not found"}}
				case "500":
					plan.HTTP[cp.SchemaURL] = []simrt.Response{{Kind: "status", Status: 500, Body: body}}
				case "transport-error":
					plan.HTTP[cp.SchemaURL] = []simrt.Response{{Kind: "error", Text: "dial tcp: i/o timeout"}}
				case "truncated":
					plan.HTTP[cp.SchemaURL] = []simrt.Response{{Kind: "truncate", Body: body, After: len(body) / 2}}
				case "empty":
					plan.HTTP[cp.SchemaURL] = []simrt.Response{{Kind: "ok", Body: ""}}
				case "not-json":
					plan.HTTP[cp.SchemaURL] = []simrt.Response{{Kind: "ok", Body: "<html>503 gateway</html>"}}
				case "redirect-ok":
					// the origin moved the schema: the client follows the redirect, the schema is retrievable
					moved := strings.Replace(cp.SchemaURL, "://", "://moved.", 1)
					plan.HTTP[cp.SchemaURL] = []simrt.Response{{Kind: "redirect", To: moved}}
					plan.HTTP[moved] = []simrt.Response{{Kind: "ok", Body: body}}
				case "redirect-loop":
					plan.HTTP[cp.SchemaURL] = []simrt.Response{{Kind: "redirect", To: cp.SchemaURL}}
				}
			}
			// decoys: the schema is looked for at template-schema and nowhere else. When it is not
			// retrievable there, perfectly good schema documents at neighbouring names change nothing.
			if cp.Avail != "ok" && cp.Avail != "redirect-ok" && r.Chance(1, 2) {
				noQuery := strings.SplitN(cp.TemplURL, "?", 2)[0]
				stem := strings.TrimSuffix(noQuery, filepath.Ext(noQuery))
				dir := noQuery[:strings.LastIndex(noQuery, "/")+1]
				for _, decoy := range []string{stem + ".schema.json", noQuery + ".schema", noQuery + ".json", dir + "schema.json", stem + ".json"} {
					if decoy == cp.SchemaURL {
						continue
					}
					if strings.HasPrefix(decoy, "file://") {
						p.Aux[strings.TrimPrefix(decoy, "file://"+world.RootPlaceholder+"/")] = `{"type": "object"}`
					} else {
						plan.HTTP[decoy] = []simrt.Response{{Kind: "ok", Body: `{"type": "object"}`}}
					}
				}
			}
			pc.Set("template", cp.TemplURL)
			pc.Set("formatter", "noop")
			if cp.SchemaLoc == "explicit" {
				pc.Set("template-schema", cp.SchemaURL)
			}
		} else {
			pc.Set("template", cp.Template)
			schema = builtin[cp.Template]
			cp.Avail = "embedded"
			if r.Chance(1, 6) {
				// an explicit schema location does not replace the built-in schema
				cp.SchemaLoc = "explicit-ignored"
				pc.Set("template-schema", "file://"+world.RootPlaceholder+"/schemas/strict-for-builtin.json")
				p.Aux["schemas/strict-for-builtin.json"] = c12Custom[1].JSON()
			}
		}
		cp.Require = core.Pick(r, []string{"unset", "unset", "true", "false", "false"})
		if sharedFlagDiffers {
			cp.Require = tern(i == 0, "false", core.Pick(r, []string{"unset", "true"}))
		}
		switch cp.Require {
		case "true":
			pc.Set("require-template-schema-exists", true)
		case "false":
			pc.Set("require-template-schema-exists", false)
		}
		// template-data: one kind, placed wholly at one level or split across two
		kind := core.Pick(r, []string{"conforming", "conforming", "conforming", "empty", "missing-required", "extra-key", "wrong-type"})
		if len(schema.OneOf)+len(schema.AnyOf)+len(schema.Not) > 0 && r.Chance(2, 5) {
			kind = "compound-violated" // every property is fine on its own; only oneOf / anyOf / not is not
		}
		if allGood {
			kind = core.Pick(r, []string{"conforming", "conforming", "empty"})
		}
		if sharedFlagDiffers {
			kind = tern(i == 0, "conforming", core.Pick(r, []string{"extra-key", "wrong-type"}))
		}
		d := c12Data(r, schema, kind)
		if !custom && kind == "extra-key" && r.Bool() {
			// a key that only the *other* built-in template's schema allows
			delete(d, "undeclared-option")
			if cp.Template == "matryer" {
				d["unroll-variadic"] = true
			} else {
				d["stub-impl"] = true
			}
		}
		place := core.Pick(r, []string{"root", "package", "package", "interface", "configs", "split", "override", "every-interface"})
		if sharedFlagDiffers {
			place = core.Pick(r, []string{"package", "interface"})
		}
		if allGood && (place == "root" || place == "override") {
			place = "package"
		}
		if place == "override" && len(d) == 0 {
			place = "package"
		}
		if nP > 1 && place == "root" && r.Bool() {
			place = "package"
		}
		ifs := e.Sub("interfaces")
		i0 := cp.Ifaces[0]
		ic0 := ifs.Sub(i0).Sub("config")
		var i1 string
		var cfgs []any
		if len(cp.Ifaces) > 1 {
			i1 = cp.Ifaces[1]
			cfgs = []any{world.NewY().Set("structname", "Mock"+i1+"A"), world.NewY().Set("structname", "Mock"+i1+"B")}
			ifs.Sub(i1).Set("configs", cfgs)
			cp.ConfigsTD[i1] = []map[string]any{{}, {}}
		} else if place == "configs" {
			place = "interface"
		}
		putIface := func(dd map[string]any) {
			cp.IfaceTD[i0] = mergeTD(cp.IfaceTD[i0], dd)
			ic0.Set("template-data", tdY(cp.IfaceTD[i0]))
		}
		putConfigs := func(dd map[string]any) {
			k := r.Intn(2)
			cp.ConfigsTD[i1][k] = mergeTD(cp.ConfigsTD[i1][k], dd)
			cfgs[k].(*world.Y).Set("template-data", tdY(cp.ConfigsTD[i1][k]))
		}
		putPkg := func(dd map[string]any) {
			cp.PkgTD = mergeTD(cp.PkgTD, dd)
			pc.Set("template-data", tdY(cp.PkgTD))
		}
		putRoot := func(dd map[string]any) {
			cs.RootTD = mergeTD(cs.RootTD, dd)
		}
		switch place {
		case "root":
			putRoot(d)
		case "package":
			putPkg(d)
		case "interface":
			// required keys must also hold for the file-level data: give those at package level
			base := map[string]any{}
			if r.Bool() {
				for _, k := range schema.Required {
					if v, ok := d[k]; ok {
						base[k] = v
					}
				}
			}
			if len(base) > 0 {
				putPkg(base)
			}
			putIface(d)
		case "configs":
			base := map[string]any{}
			if r.Bool() {
				for _, k := range schema.Required {
					if v, ok := d[k]; ok {
						base[k] = v
					}
				}
			}
			if len(base) > 0 {
				putPkg(base)
			}
			putConfigs(d)
		case "every-interface":
			// every mock of the file carries the data itself, the file level carries none: the
			// file-level map (empty) must still satisfy the schema
			putIface(d)
			if i1 != "" {
				for k := 0; k < 2; k++ {
					cp.ConfigsTD[i1][k] = mergeTD(cp.ConfigsTD[i1][k], d)
					cfgs[k].(*world.Y).Set("template-data", tdY(cp.ConfigsTD[i1][k]))
				}
			}
		case "override":
			// the whole map above; below, exactly one inherited key is overridden (no key is
			// added) — with a wrongly typed value, or with another valid one
			k := core.Pick(r, core.SortedKeys(d))
			var nv any = []any{"not", "a", "scalar"}
			switch r.Intn(3) {
			case 0:
				nv = d[k]
			case 1:
				// a wrongly typed look-alike: it prints like the valid value it overrides (30 and
				// "30", true and "true"), so the two maps differ in type only
				switch x := d[k].(type) {
				case int:
					nv = fmt.Sprint(x)
				case bool:
					nv = fmt.Sprint(x)
				case string:
					d[k] = core.Pick(r, []string{"7", "true"})
					if d[k] == "7" {
						nv = 7
					} else {
						nv = true
					}
				}
			}
			if r.Bool() {
				putPkg(d)
			} else {
				putRoot(d)
			}
			if i1 != "" && r.Bool() {
				putConfigs(map[string]any{k: nv})
			} else {
				putIface(map[string]any{k: nv})
			}
		case "split":
			up, low := map[string]any{}, map[string]any{}
			for _, k := range core.SortedKeys(d) {
				if contains(schema.Required, k) || r.Bool() {
					up[k] = d[k]
				} else {
					low[k] = d[k]
				}
			}
			if r.Bool() {
				putPkg(up)
			} else {
				putRoot(up)
			}
			if i1 != "" && r.Bool() {
				putConfigs(low)
			} else {
				putIface(low)
			}
			// sometimes a lower level overrides a valid key with a wrongly typed value
			if kind == "conforming" && len(up) > 0 && r.Chance(1, 4) {
				k := core.SortedKeys(up)[0]
				bad := map[string]any{k: []any{"not", "a", "scalar"}}
				putIface(bad)
			}
		}
		cs.Pkgs = append(cs.Pkgs, cp)
	}
	if len(cs.RootTD) > 0 {
		cfg.Set("template-data", tdY(cs.RootTD))
	}
	p.Config = cfg
	cs.Tree = p.Tree()
	cs.Step = world.Step{Plan: plan}
	// verdicts from the statement
	for i := range cs.Pkgs {
		cp := &cs.Pkgs[i]
		var schema miniSchema
		custom := cp.Template != "testify" && cp.Template != "matryer"
		if custom {
			schema = c12Custom[cp.SchemaIdx]
		} else {
			schema = builtin[cp.Template]
		}
		fileData := mergeTD(cs.RootTD, cp.PkgTD)
		conform := schema.conforms(fileData)
		for _, n := range cp.Ifaces {
			id := mergeTD(fileData, cp.IfaceTD[n])
			if entries, ok := cp.ConfigsTD[n]; ok {
				for _, ed := range entries {
					if !schema.conforms(mergeTD(id, ed)) {
						conform = false
					}
				}
			} else if !schema.conforms(id) {
				conform = false
			}
		}
		retrievable := cp.Avail == "ok" || cp.Avail == "embedded" || cp.Avail == "redirect-ok"
		switch {
		case !custom:
			cp.Verdict, cp.Why = tern(conform, "accept", "reject"), "built-in template: validated against the built-in schema whatever require-template-schema-exists says"
		case cp.Require != "false" && !retrievable:
			cp.Verdict, cp.Why = "reject", "custom template without a retrievable schema is an error unless require-template-schema-exists is false"
		case cp.Require != "false":
			cp.Verdict, cp.Why = tern(conform, "accept", "reject"), "schema retrievable and required: data validated at every level"
		case !retrievable:
			cp.Verdict, cp.Why = "accept", "require-template-schema-exists false and no retrievable schema: no validation is performed"
		case conform:
			cp.Verdict, cp.Why = "accept", "conforming data is accepted"
		default:
			cp.Verdict, cp.Why = "open", "require=false, schema retrievable, data non-conforming: the statement can be read either way"
		}
	}
	return cs
}

func tern(b bool, x, y string) string {
	if b {
		return x
	}
	return y
}

func contains(xs []string, x string) bool {
	for _, y := range xs {
		if x == y {
			return true
		}
	}
	return false
}

func evalC12(c *core.Ctx, cs c12Case, id string) Outcome {
	out := Outcome{}
	base := filepath.Join(c.Scratch, "w", id)
	root := filepath.Join(base, "root")
	defer world.RemoveAll(base)
	if err := cs.Tree.Materialise(root); err != nil {
		out.Trouble = err.Error()
		return out
	}
	res := world.Run(c.Bin, root, base, cs.Step, 90*time.Second)
	out.Runs = 1
	if res.TimedOut {
		out.Trouble = "watchdog: child did not exit within 90s"
		return out
	}
	out.Scheds = []string{res.OrderVector()}
	out.Key = core.HashStr(world.TreeDigest(cs.Tree), res.OrderVector())
	var rejects, accepts, opens []c12Pkg
	for _, p := range cs.Pkgs {
		out.Tags = append(out.Tags, "verdict:"+p.Verdict, "template:"+p.Template, "avail:"+p.Avail, "require:"+p.Require)
		switch p.Verdict {
		case "reject":
			rejects = append(rejects, p)
		case "accept":
			accepts = append(accepts, p)
		default:
			opens = append(opens, p)
		}
	}
	for _, e := range res.Events {
		if e.Ev == "http" {
			out.Tags = append(out.Tags, "http-fired:"+e.Kind)
		}
	}
	exists := func(p c12Pkg) bool {
		_, err := os.Stat(filepath.Join(root, p.OutFile))
		return err == nil
	}
	mk := func(clause string, p c12Pkg, exp, obs string) Outcome {
		out.Sig = &core.Signature{Clause: clause, Site: fmt.Sprintf("template=%s,schema=%s/%s,require=%s", p.Template, p.SchemaLoc, p.Avail, p.Require), Trigger: c12Trigger(cs, p)}
		out.Expected = exp + " (" + p.Why + ")"
		out.Observed = fmt.Sprintf("%s [package %s; exit %d; policy %s; stderr tail: %s]", obs, p.Dir, res.Exit, cs.Step.Plan.Schedule.Policy, tail(res.Stderr, 400))
		return out
	}
	out.Nontrivial = len(cs.Pkgs) >= 1 && (len(rejects) > 0 || len(cs.RootTD) > 0 || len(cs.Pkgs) > 1)
	if res.Panicked() {
		return mk("panic", cs.Pkgs[0], "no panic", "child panicked")
	}
	// V1: a file whose data must be rejected is never written, and the run fails
	for _, p := range rejects {
		if exists(p) {
			return mk("V1-rejected-file-written", p, "nothing is written for a file whose template-data violates the schema / whose schema is missing", "the output file exists")
		}
	}
	if len(rejects) > 0 && res.Exit == 0 {
		return mk("V1-exit-0-despite-rejection", rejects[0], "the run fails", "exit 0")
	}
	// V2: with nothing to reject and nothing open, the run succeeds and every file is written
	if len(rejects) == 0 && len(opens) == 0 {
		if res.Exit != 0 {
			return mk("V2-conforming-data-not-accepted", accepts[0], "exit 0: conforming data is accepted", "run failed")
		}
		for _, p := range accepts {
			if !exists(p) {
				return mk("V2-accepted-file-missing", p, "the output file is written", "file absent after exit 0")
			}
		}
	}
	if len(opens) > 0 {
		out.Tags = append(out.Tags, fmt.Sprintf("open-case-exit:%d", min(res.Exit, 2)))
	}
	return out
}

func c12Trigger(cs c12Case, p c12Pkg) string {
	var t []string
	if len(cs.RootTD) > 0 {
		t = append(t, "root-data")
	}
	if len(p.PkgTD) > 0 {
		t = append(t, "package-data")
	}
	for _, n := range core.SortedKeys(p.IfaceTD) {
		if len(p.IfaceTD[n]) > 0 {
			t = append(t, "interface-data")
		}
	}
	for _, n := range core.SortedKeys(p.ConfigsTD) {
		for _, e := range p.ConfigsTD[n] {
			if len(e) > 0 {
				t = append(t, "configs-data")
			}
		}
	}
	shared := 0
	for _, q := range cs.Pkgs {
		if q.TemplURL != "" && q.TemplURL == p.TemplURL {
			shared++
		}
	}
	if shared > 1 {
		t = append(t, "template-url-shared")
	}
	sort.Strings(t)
	return strings.Join(t, ",")
}

func RunC12(c *core.Ctx) int {
	c.PrepareRepo(true)
	builtin := map[string]miniSchema{}
	for _, n := range []string{"testify", "matryer"} {
		s, err := loadBuiltinSchema(c, n)
		if err != nil {
			core.Troublef("C12: %v", err)
		}
		builtin[n] = s
	}
	n := 1200
	budget := 20 * time.Minute // quick: the case count is the contract, the clock only a watchdog
	if c.Tier == "thorough" {
		n = 24000
		budget = 28 * time.Minute
	}
	policies := []string{"asc", "desc", "random"}
	cp := &Campaign[c12Case]{C: c, Engine: "W", N: n, Budget: budget,
		Gen: func(i int) c12Case {
			// the same world under three iteration orders (cache history differs)
			if i < 27 {
				// directed family first: 3 variants × 3 draws × 3 orders
				return c12TwoTemplates(core.Stream(c.Seed, "c12-two", i/3), policies[i%3], (i/3)%3, i/3)
			}
			return c12Gen(c, core.Stream(c.Seed, "c12", i/3), builtin, policies[i%3], i/3)
		},
		Eval: func(cs c12Case, id string) Outcome {
			o := evalC12(c, cs, id)
			if o.Sample == nil {
				o.Sample = map[string]any{"config": cs.Tree.Files[".mockery.yml"], "packages": cs.Pkgs, "http": cs.Step.Plan.HTTP, "policy": cs.Step.Plan.Schedule.Policy}
			}
			return o
		},
		Shrink: func(cs c12Case, fails func(c12Case) bool, deadline time.Time) (c12Case, string) {
			note := ""
			if cs.Step.Plan.Schedule.Policy == "random" {
				for _, pol := range []string{"asc", "desc"} {
					cand := cs
					cand.Step.Plan.Schedule.Policy = pol
					if fails(cand) {
						cs = cand
						note = "schedule random→" + pol
						break
					}
				}
			}
			return cs, note
		},
	}
	res := cp.Run()
	rep := c.InstrReport()
	cov := map[string]any{
		"rule":               "one evaluation = one child run of the instrumented mockery on a generated world (1–3 packages; per package: template kind, schema location, schema availability incl. retrieval faults served by the simulated transport or the tree, require flag, template-data kind and placement) under one iteration policy; every world is run under asc, desc and random orders; non-trivial = some file must be rejected, or data sits at root level, or ≥2 packages; distinct = hash(tree digest, order-decision vector)",
		"templates":          []string{"testify", "matryer", "file://", "http://", "https://"},
		"schema_faults":      []string{"404", "500", "transport-error", "truncated", "empty", "not-json", "file-missing", "redirect (followed)", "redirect loop"},
		"data_kinds":         []string{"conforming", "empty", "missing-required", "extra-key", "wrong-type", "compound-violated (two oneOf branches at once, no branch, no anyOf branch, a key under not)", "lower-level override with wrong type"},
		"placements":         []string{"root", "package", "interface", "configs", "split across two levels"},
		"open_combination":   "require=false ∧ schema retrievable ∧ non-conforming data is run and counted (open-case-exit:*), never judged",
		"instrumented_sites": rep.RangeSites,
		"components":         map[string]any{"real": []string{"mockery CLI (all packages)", "gojsonschema", "go list", "tmpfs"}, "instrumented": []string{fmt.Sprintf("%d map-range sites", len(rep.RangeSites))}, "stub": []string{"HTTP origins (scripted RoundTripper)"}},
	}
	return res.Finish(c, "fault_enumeration", cov, []string{
		"the oracle evaluates conformance with its own evaluator for the schema family it generates (typed properties, required, additionalProperties) and for the built-in schemas read from the tree under test",
		"template-data maps are flat and merge downwards with the lower level winning (documented hierarchy)",
	}, "outcome model held")
}

func init() {
	Runners["C12"] = RunC12
	registerReplayer[c12Case]("C12", func(c *core.Ctx) { c.PrepareRepo(true) }, evalC12)
}
