package checks

import (
	"fmt"
	"path/filepath"
	"regexp"
	"sort"
	"strings"
	"time"

	"verif/sim/core"
	"verif/sim/simrt"
	"verif/sim/world"
)

// ---------------------------------------------------------------------------------------------
// C09 — invalid or unsatisfiable input fails loudly: non-zero exit, never a crash.
//
// A fault campaign over valid baseline worlds. Oracle: a case with ≥1 injected invalidity
// must exit ≠0 with a diagnostic and without a Go panic; a fault-free / valid-but-unusual
// case must exit 0 with every expected mock on disk; exit 0 is never accepted unless every
// configured mock is on disk.

type c09Case struct {
	Tree    world.Tree          `json:"tree"`
	Step    world.Step          `json:"step"`
	Faults  []string            `json:"faults"`  // injected invalidities ("class/variant@level"); empty ⇒ must succeed
	Expect  map[string][]string `json:"expect"`  // output file → struct names (all configured mocks of the world)
	Unusual string              `json:"unusual"` // valid-but-unusual variant, if any
	// Unjudged cases are held only to "exits, no panic".
	Unjudged bool `json:"unjudged,omitempty"`
}

type c09Base struct {
	proj   *world.Project
	expect map[string][]string
	target int // index of the package that carries all four levels
	tmpl   string
	i0, i1 string // interface names in the target package with `config:` and `configs:`
}

const c09Mod = "example.com/w"

func c09OutFile(pkgDir string) string { return "mocks/" + c09Mod + "/" + pkgDir + "/mocks.go" }

// c09Baseline builds a valid multi-package world whose expected mocks are known from the spec.
func c09Baseline(r *core.Rng) *c09Base {
	o := world.GenOpts{MinPkgs: 2, MaxPkgs: 4, MaxIfacesPerPkg: 3, AllowXRef: true}
	pkgs := world.GenPackages(r, o)
	// the target package needs ≥2 interfaces
	tgt := 0
	for len(pkgs[tgt].AllIfaces(nil)) < 3 {
		f := &pkgs[tgt].Files[0]
		f.Ifaces = append(f.Ifaces, world.Iface{Name: "Extra" + fmt.Sprint(len(f.Ifaces)), Methods: []int{r.Intn(len(world.MethodPool))}})
	}
	p := &world.Project{Module: c09Mod, Pkgs: pkgs, Aux: map[string]string{}}
	b := &c09Base{proj: p, expect: map[string][]string{}, target: tgt}
	b.tmpl = core.Pick(r, []string{"testify", "matryer"})
	cfg := world.NewY()
	cfg.Set("template", b.tmpl)
	cfg.Set("formatter", "goimports")
	cfg.Set("dir", "mocks/{{.SrcPackagePath}}")
	cfg.Set("filename", "mocks.go")
	cfg.Set("pkgname", "mocks")
	cfg.Set("force-file-write", true)
	pk := cfg.Sub("packages")
	for i, q := range pkgs {
		e := pk.Sub(c09Mod + "/" + q.Dir)
		names := q.AllIfaces(nil)
		out := c09OutFile(q.Dir)
		if i == tgt {
			ifs := e.Sub("interfaces")
			for j, n := range names {
				ic := ifs.Sub(n)
				switch j {
				case 0:
					ic.Sub("config").Set("structname", "Mock"+n)
					b.i0 = n
					b.expect[out] = append(b.expect[out], "Mock"+n)
				case 1:
					ic.Set("configs", []any{world.NewY().Set("structname", "Mock"+n+"A"), world.NewY().Set("structname", "Mock"+n+"B")})
					b.i1 = n
					b.expect[out] = append(b.expect[out], "Mock"+n+"A", "Mock"+n+"B")
				default:
					b.expect[out] = append(b.expect[out], "Mock"+n)
				}
			}
			e.Sub("config") // present, possibly empty
			continue
		}
		if r.Bool() {
			e.Sub("config").Set("all", true)
		} else {
			ifs := e.Sub("interfaces")
			for _, n := range names {
				ifs.Set(n, world.NewY())
			}
		}
		for _, n := range names {
			b.expect[out] = append(b.expect[out], "Mock"+n)
		}
	}
	p.Config = cfg
	return b
}

func (b *c09Base) clone() *c09Base {
	n := *b
	np := *b.proj
	np.Config = b.proj.Config.Clone()
	np.Pkgs = nil
	for _, q := range b.proj.Pkgs {
		nq := q
		nq.Files = nil
		for _, f := range q.Files {
			nf := f
			nf.Ifaces = append([]world.Iface(nil), f.Ifaces...)
			nq.Files = append(nq.Files, nf)
		}
		np.Pkgs = append(np.Pkgs, nq)
	}
	np.Aux = map[string]string{}
	for k, v := range b.proj.Aux {
		np.Aux[k] = v
	}
	np.Dirs = append([]string(nil), b.proj.Dirs...)
	np.Links = map[string]string{}
	for k, v := range b.proj.Links {
		np.Links[k] = v
	}
	n.proj = &np
	n.expect = map[string][]string{}
	for k, v := range b.expect {
		n.expect[k] = append([]string(nil), v...)
	}
	return &n
}

func (b *c09Base) tpkg() *world.Pkg { return &b.proj.Pkgs[b.target] }
func (b *c09Base) tpath() string    { return c09Mod + "/" + b.tpkg().Dir }

// level returns the config node at one of the four levels of the target package.
func (b *c09Base) level(lv string) *world.Y {
	e := b.proj.Config.Sub("packages").Sub(b.tpath())
	switch lv {
	case "root":
		return b.proj.Config
	case "package":
		return e.Sub("config")
	case "interface":
		return e.Sub("interfaces").Sub(b.i0).Sub("config")
	case "configs":
		v, _ := e.Sub("interfaces").Sub(b.i1).Get("configs")
		return v.([]any)[1].(*world.Y)
	}
	panic("level " + lv)
}

var c09Levels = []string{"root", "package", "interface", "configs"}

type c09Fault struct {
	Class   string
	Variant string
	Levels  []string // levels at which the setting is consulted ("" = not a per-level fault)
	Apply   func(b *c09Base, lv string, plan *simrt.Plan)
	Valid   bool // valid-but-unusual: must succeed
	// Unjudged: the statement does not settle the expected status (run, counted, never a verdict
	// beyond "no panic, exits").
	Unjudged bool
}

const probeTemplate = `// Code generated by a probe template. DO NOT EDIT.
package {{.PkgName}}
{{range .Interfaces}}
type {{.StructName}} struct{ n int }
{{end}}
`

func c09Faults() []c09Fault {
	set := func(k string, v any) func(b *c09Base, lv string, _ *simrt.Plan) {
		return func(b *c09Base, lv string, _ *simrt.Plan) { b.level(lv).Set(k, v) }
	}
	td := func(k string, v any) func(b *c09Base, lv string, _ *simrt.Plan) {
		return func(b *c09Base, lv string, _ *simrt.Plan) { b.level(lv).Sub("template-data").Set(k, v) }
	}
	all := c09Levels
	// regexes are consulted only where selection happens: all=false and an unlisted interface
	regexSetup := func(b *c09Base) {
		e := b.proj.Config.Sub("packages").Sub(b.tpath())
		names := b.tpkg().AllIfaces(nil)
		last := names[len(names)-1]
		e.Sub("interfaces").Del(last)
		out := c09OutFile(b.tpkg().Dir)
		var keep []string
		for _, s := range b.expect[out] {
			if !strings.HasPrefix(s, "Mock"+last) {
				keep = append(keep, s)
			}
		}
		b.expect[out] = keep
	}
	remote := func(kind string) func(b *c09Base, lv string, plan *simrt.Plan) {
		return func(b *c09Base, lv string, plan *simrt.Plan) {
			u := "http://origin.test/probe.templ"
			if kind == "https-transport-error" {
				u = "https://origin.test/probe.templ"
			}
			b.level(lv).Set("template", u)
			b.level(lv).Set("formatter", "noop")
			schemaOK := []simrt.Response{{Kind: "ok", Body: `{"type":"object"}`}}
			plan.HTTP = map[string][]simrt.Response{u + ".schema.json": schemaOK}
			switch kind {
			case "transport-error", "https-transport-error":
				plan.HTTP[u] = []simrt.Response{{Kind: "error", Text: "connection refused"}}
			case "404":
				plan.HTTP[u] = []simrt.Response{{Kind: "status", Status: 404, Body: "not found"}}
			case "500":
				plan.HTTP[u] = []simrt.Response{{Kind: "status", Status: 500, Body: "oops"}}
			case "truncated":
				plan.HTTP[u] = []simrt.Response{{Kind: "truncate", Status: 200, Body: probeTemplate, After: 40}}
			case "unparsable":
				plan.HTTP[u] = []simrt.Response{{Kind: "ok", Body: "package {{.PkgName}}\n{{ .Nope "}}
			case "schema-404":
				plan.HTTP[u] = []simrt.Response{{Kind: "ok", Body: probeTemplate}}
				plan.HTTP[u+".schema.json"] = []simrt.Response{{Kind: "status", Status: 404, Body: "nope"}}
			case "schema-not-json":
				plan.HTTP[u] = []simrt.Response{{Kind: "ok", Body: probeTemplate}}
				plan.HTTP[u+".schema.json"] = []simrt.Response{{Kind: "ok", Body: "<html>not json"}}
			}
		}
	}
	fs := []c09Fault{
		{Class: "unknown-template", Variant: "misspelt", Levels: all, Apply: set("template", "testifyy")},
		{Class: "unknown-formatter", Variant: "misspelt", Levels: all, Apply: set("formatter", "gofmtt")},
		// the only mock of its own output file: no sibling can trip the same-template check instead
		{Class: "unknown-template", Variant: "misspelt-own-file", Levels: []string{"interface", "configs"}, Apply: func(b *c09Base, lv string, _ *simrt.Plan) {
			b.level(lv).Set("template", "testifyy").Set("filename", "own_"+lv+".go")
		}},
		{Class: "unknown-formatter", Variant: "misspelt-own-file", Levels: []string{"interface", "configs"}, Apply: func(b *c09Base, lv string, _ *simrt.Plan) {
			b.level(lv).Set("formatter", "gofmtt").Set("filename", "own_"+lv+".go")
		}},
		{Class: "unknown-key", Variant: "no-such-key", Levels: all, Apply: set("no-such-key", true)},
		{Class: "unknown-key", Variant: "v2-key", Levels: all, Apply: set("with-expecter", true)},
		{Class: "cyclic-template", Variant: "structname-self", Levels: all, Apply: set("structname", "{{.StructName}}x")},
		{Class: "schema-reject", Variant: "extra-key", Levels: all, Apply: td("no-such-option", 1)},
		{Class: "schema-reject", Variant: "wrong-type", Levels: all, Apply: td("mock-build-tags", 7)},
		// a key that is valid above and overridden below with a value the schema rejects
		{Class: "schema-reject", Variant: "override-with-wrong-type", Levels: []string{"package", "interface", "configs"}, Apply: func(b *c09Base, lv string, _ *simrt.Plan) {
			b.proj.Config.Sub("template-data").Set("mock-build-tags", "!nomocks")
			b.level(lv).Sub("template-data").Set("mock-build-tags", 7)
		}},
		{Class: "schema-reject", Variant: "shared-custom-template-require-flag-differs", Levels: []string{""}, Apply: func(b *c09Base, _ string, _ *simrt.Plan) {
			// two packages share one file:// template; one switches validation off (its data is
			// fine anyway), the other keeps it on and carries data the schema rejects
			b.proj.Aux["templates/probe.templ"] = probeTemplate
			b.proj.Aux["templates/probe.templ.schema.json"] = `{"type": "object", "additionalProperties": false, "properties": {"owner": {"type": "string"}}}`
			tpl := "file://" + world.RootPlaceholder + "/templates/probe.templ"
			b.proj.Config.Set("formatter", "noop")
			for i, q := range b.proj.Pkgs {
				cfg := b.proj.Config.Sub("packages").Sub(c09Mod + "/" + q.Dir).Sub("config")
				cfg.Set("template", tpl)
				if i == b.target {
					cfg.Sub("template-data").Set("not-in-schema", true)
				} else {
					cfg.Set("require-template-schema-exists", false)
					cfg.Sub("template-data").Set("owner", "me")
				}
			}
		}},
		{Class: "bad-regex", Variant: "include", Levels: []string{"root", "package"}, Apply: func(b *c09Base, lv string, _ *simrt.Plan) {
			regexSetup(b)
			b.level(lv).Set("include-interface-regex", "(")
		}},
		{Class: "bad-regex", Variant: "exclude", Levels: []string{"root", "package"}, Apply: func(b *c09Base, lv string, _ *simrt.Plan) {
			regexSetup(b)
			b.level(lv).Set("include-interface-regex", ".*")
			b.level(lv).Set("exclude-interface-regex", "[z-a]")
		}},
		{Class: "bad-regex", Variant: "exclude-subpkg", Levels: []string{"root"}, Apply: func(b *c09Base, lv string, _ *simrt.Plan) {
			b.proj.Config.Set("exclude-subpkg-regex", []any{"("})
			// a recursive package with a sub-package, so the expression is consulted
			b.proj.Pkgs = append(b.proj.Pkgs, world.Pkg{Dir: "rec", Name: "rec", Files: []world.SrcFile{{Name: "rec.go", Ifaces: []world.Iface{{Name: "RecA", Methods: []int{7}}}}}},
				world.Pkg{Dir: "rec/sub", Name: "sub", Files: []world.SrcFile{{Name: "sub.go", Ifaces: []world.Iface{{Name: "RecB", Methods: []int{8}}}}}})
			b.proj.Config.Sub("packages").Sub(c09Mod+"/rec").Sub("config").Set("all", true).Set("recursive", true)
		}},
		{Class: "missing-interface", Variant: "typo", Levels: []string{""}, Apply: func(b *c09Base, _ string, _ *simrt.Plan) {
			b.proj.Config.Sub("packages").Sub(b.tpath()).Sub("interfaces").Set("NoSuchIface", world.NewY())
		}},
		{Class: "missing-interface", Variant: "typo-in-all-package", Levels: []string{""}, Apply: func(b *c09Base, _ string, _ *simrt.Plan) {
			// a package selected by all:true that also lists a name that does not exist
			for i, q := range b.proj.Pkgs {
				if i != b.target {
					e := b.proj.Config.Sub("packages").Sub(c09Mod + "/" + q.Dir)
					e.Sub("config").Set("all", true)
					e.Sub("interfaces").Set("Storr", world.NewY())
					return
				}
			}
		}},
		{Class: "missing-interface", Variant: "name-exists-only-in-another-package", Levels: []string{""}, Apply: func(b *c09Base, _ string, _ *simrt.Plan) {
			// the listed name is declared (and configured) in a different package, not in this one
			for i, q := range b.proj.Pkgs {
				if i != b.target {
					other := q.AllIfaces(nil)[0]
					e := b.proj.Config.Sub("packages").Sub(c09Mod + "/" + q.Dir)
					e.Sub("interfaces").Set(other, world.NewY())
					b.proj.Config.Sub("packages").Sub(b.tpath()).Sub("interfaces").Set(other, world.NewY())
					return
				}
			}
		}},
		{Class: "missing-interface", Variant: "not-an-interface", Levels: []string{""}, Apply: func(b *c09Base, _ string, _ *simrt.Plan) {
			b.proj.Config.Sub("packages").Sub(b.tpath()).Sub("interfaces").Set("Thing", world.NewY())
		}},
		{Class: "missing-interface", Variant: "build-tag-excluded", Levels: []string{""}, Apply: func(b *c09Base, _ string, _ *simrt.Plan) {
			q := b.tpkg()
			q.Files = append(q.Files, world.SrcFile{Name: "tagged.go", BuildTag: "special", Ifaces: []world.Iface{{Name: "Tagged", Methods: []int{7}}}})
			b.proj.Config.Sub("packages").Sub(b.tpath()).Sub("interfaces").Set("Tagged", world.NewY())
		}},
		{Class: "missing-interface", Variant: "function-local-only", Levels: []string{""}, Apply: func(b *c09Base, _ string, _ *simrt.Plan) {
			q := b.tpkg()
			q.Files[0].Extra += "\nfunc localOnly() { type OnlyLocal interface{ M() }; var _ OnlyLocal }\n"
			b.proj.Config.Sub("packages").Sub(b.tpath()).Sub("interfaces").Set("OnlyLocal", world.NewY())
		}},
		// "generated and written": the write itself fails (same class as the two older unwritable-path variants below, so they are never paired)
		{Class: "unwritable", Variant: "no-space-left-on-device", Levels: []string{""}, Apply: func(b *c09Base, _ string, _ *simrt.Plan) {
			// the output path exists (overwriting is allowed) and its device is full: open
			// succeeds, every write returns ENOSPC
			b.proj.Links[c09OutFile(b.tpkg().Dir)] = "/dev/full"
		}},
		{Class: "unwritable", Variant: "file-name-longer-than-the-file-system-allows", Levels: []string{""}, Apply: func(b *c09Base, _ string, _ *simrt.Plan) {
			// 256 bytes: one more than NAME_MAX; the mock can only be written under another name
			b.level("interface").Set("filename", strings.Repeat("n", 253)+".go")
		}},
		{Class: "unwritable", Variant: "existing-file-and-no-force-file-write", Levels: []string{""}, Apply: func(b *c09Base, _ string, _ *simrt.Plan) {
			b.proj.Config.Set("force-file-write", false)
			b.proj.Aux[c09OutFile(b.tpkg().Dir)] = "package mocks\n\n// written by somebody else\n"
		}},
		{Class: "load-error", Variant: "absent-package", Levels: []string{""}, Apply: func(b *c09Base, _ string, _ *simrt.Plan) {
			b.proj.Config.Sub("packages").Sub(c09Mod+"/nosuchpkg").Sub("config").Set("all", true)
		}},
		{Class: "load-error", Variant: "syntax-error", Levels: []string{""}, Apply: func(b *c09Base, _ string, _ *simrt.Plan) {
			b.tpkg().Files[0].Extra += "\nfunc broken( {\n"
		}},
		{Class: "load-error", Variant: "type-error", Levels: []string{""}, Apply: func(b *c09Base, _ string, _ *simrt.Plan) {
			b.tpkg().Files[0].Extra += "\nvar _ int = \"not an int\"\n"
		}},
		{Class: "load-error", Variant: "type-error-in-other-package", Levels: []string{""}, Apply: func(b *c09Base, _ string, _ *simrt.Plan) {
			for i := range b.proj.Pkgs {
				if i != b.target {
					b.proj.Pkgs[i].Files[0].Extra += "\nfunc f() int { return \"s\" }\n"
					return
				}
			}
		}},
		{Class: "load-error", Variant: "type-error-in-last-package", Levels: []string{""}, Apply: func(b *c09Base, _ string, _ *simrt.Plan) {
			i := len(b.proj.Pkgs) - 1
			if i == b.target {
				i--
			}
			b.proj.Pkgs[i].Files[0].Extra += "\nvar _ string = 42\n"
		}},
		{Class: "load-error", Variant: "syntax-error-in-last-package", Levels: []string{""}, Apply: func(b *c09Base, _ string, _ *simrt.Plan) {
			i := len(b.proj.Pkgs) - 1
			if i == b.target {
				i--
			}
			b.proj.Pkgs[i].Files[0].Extra += "\ntype broken interface {\n"
		}},
		{Class: "load-error", Variant: "all-files-excluded-by-build-constraint", Levels: []string{""}, Apply: func(b *c09Base, _ string, _ *simrt.Plan) {
			b.proj.Pkgs = append(b.proj.Pkgs, world.Pkg{Dir: "excluded", Name: "excluded", Files: []world.SrcFile{{Name: "only.go", BuildTag: "neverset", Ifaces: []world.Iface{{Name: "Hidden", Methods: []int{7}}}}}})
			b.proj.Config.Sub("packages").Sub(c09Mod+"/excluded").Sub("config").Set("all", true)
		}},
		{Class: "missing-interface", Variant: "declared-only-in-test-file", Levels: []string{""}, Apply: func(b *c09Base, _ string, _ *simrt.Plan) {
			q := b.tpkg()
			b.proj.Aux[q.Dir+"/only_test.go"] = "package " + q.Name + "\n\ntype OnlyInTest interface{ M() }\n"
			b.proj.Config.Sub("packages").Sub(b.tpath()).Sub("interfaces").Set("OnlyInTest", world.NewY())
		}},
		{Class: "load-error", Variant: "error-in-dependency", Unjudged: true, Levels: []string{""}, Apply: func(b *c09Base, _ string, _ *simrt.Plan) {
			b.proj.Pkgs = append(b.proj.Pkgs, world.Pkg{Dir: "dep", Name: "dep", Files: []world.SrcFile{{Name: "dep.go", Extra: "type T struct{}\nvar _ int = T{}\n"}}})
			q := b.tpkg()
			q.Files = append(q.Files, world.SrcFile{Name: "usesdep.go", Extra: "import \"" + c09Mod + "/dep\"\n\nvar _ dep.T\n"})
		}},
		{Class: "load-error", Variant: "no-go-mod", Levels: []string{""}, Apply: func(b *c09Base, _ string, _ *simrt.Plan) {
			b.proj.GoModText = "\x00delete"
		}},
		{Class: "file-conflict", Variant: "two-packages-one-file", Levels: []string{""}, Apply: func(b *c09Base, _ string, _ *simrt.Plan) {
			b.proj.Config.Set("dir", "mocks/shared")
		}},
		{Class: "file-conflict", Variant: "two-packages-one-file-same-interface-names", Levels: []string{""}, Apply: func(b *c09Base, _ string, _ *simrt.Plan) {
			// a second package declaring interfaces of the same names, sent to the target's file
			q := b.tpkg()
			var ifs []world.Iface
			for _, f := range q.Files {
				for _, i := range f.Ifaces {
					ifs = append(ifs, world.Iface{Name: i.Name, Methods: []int{9}})
				}
			}
			b.proj.Pkgs = append(b.proj.Pkgs, world.Pkg{Dir: "twin", Name: "twin", Files: []world.SrcFile{{Name: "twin.go", Ifaces: ifs}}})
			e := b.proj.Config.Sub("packages").Sub(c09Mod + "/twin")
			e.Sub("config").Set("all", true).Set("dir", "mocks/"+b.tpath())
		}},
		{Class: "file-conflict", Variant: "pkgname-differs", Levels: []string{"interface", "configs"}, Apply: set("pkgname", "othermocks")},
		{Class: "file-conflict", Variant: "template-differs", Levels: []string{"interface", "configs"}, Apply: func(b *c09Base, lv string, _ *simrt.Plan) {
			other := "matryer"
			if b.tmpl == "matryer" {
				other = "testify"
			}
			b.level(lv).Set("template", other)
		}},
		// the same struct of the same interface asked for twice, with requirements that cannot both hold
		{Class: "file-conflict", Variant: "same-struct-twice-template-differs", Levels: []string{""}, Apply: func(b *c09Base, _ string, _ *simrt.Plan) {
			other := "matryer"
			if b.tmpl == "matryer" {
				other = "testify"
			}
			b.level("configs").Set("structname", "Mock"+b.i1+"A").Set("template", other)
		}},
		{Class: "file-conflict", Variant: "same-struct-twice-pkgname-differs", Levels: []string{""}, Apply: func(b *c09Base, _ string, _ *simrt.Plan) {
			b.level("configs").Set("structname", "Mock"+b.i1+"A").Set("pkgname", "othermocks")
		}},
		// a go.mod without a module directive (syntactically valid; the usual way to fence a directory
		// off from the surrounding module) is the nearest one above the output file: what the right
		// status is the statement does not say — mockery must exit, and not by a panic
		{Class: "odd-gomod", Variant: "module-less-go-mod-above-the-output:go-line-only", Unjudged: true, Levels: []string{""}, Apply: func(b *c09Base, _ string, _ *simrt.Plan) {
			b.proj.Aux[filepath.Dir(c09OutFile(b.tpkg().Dir))+"/go.mod"] = "go 1.23\n"
		}},
		{Class: "odd-gomod", Variant: "module-less-go-mod-above-the-output:empty", Unjudged: true, Levels: []string{""}, Apply: func(b *c09Base, _ string, _ *simrt.Plan) {
			b.proj.Aux[filepath.Dir(c09OutFile(b.tpkg().Dir))+"/go.mod"] = ""
		}},
		{Class: "odd-gomod", Variant: "module-less-go-mod-above-the-output:comment-only", Unjudged: true, Levels: []string{""}, Apply: func(b *c09Base, _ string, _ *simrt.Plan) {
			b.proj.Aux["mocks/go.mod"] = "// fenced off\n\n// nothing here\n"
		}},
		{Class: "odd-gomod", Variant: "go-mod-above-the-output-with-toolchain-and-replace-only", Unjudged: true, Levels: []string{""}, Apply: func(b *c09Base, _ string, _ *simrt.Plan) {
			b.proj.Aux["mocks/go.mod"] = "go 1.23\n\ntoolchain go1.23.7\n\nreplace example.com/x => ../x\n"
		}},
		{Class: "retrieval", Variant: "file-missing", Levels: []string{"root", "package"}, Apply: func(b *c09Base, lv string, _ *simrt.Plan) {
			b.level(lv).Set("template", "file://"+world.RootPlaceholder+"/templates/absent.templ")
		}},
		{Class: "retrieval", Variant: "file-schema-missing", Levels: []string{"root", "package"}, Apply: func(b *c09Base, lv string, _ *simrt.Plan) {
			b.proj.Aux["templates/probe.templ"] = probeTemplate
			b.level(lv).Set("template", "file://"+world.RootPlaceholder+"/templates/probe.templ")
			b.level(lv).Set("formatter", "noop")
		}},
		{Class: "unwritable", Variant: "output-path-is-directory", Levels: []string{""}, Apply: func(b *c09Base, _ string, _ *simrt.Plan) {
			b.proj.Dirs = append(b.proj.Dirs, c09OutFile(b.tpkg().Dir))
		}},
		{Class: "unwritable", Variant: "parent-is-regular-file", Levels: []string{""}, Apply: func(b *c09Base, _ string, _ *simrt.Plan) {
			b.proj.Aux["mocks/example.com"] = "a regular file where a directory is needed\n"
		}},
	}
	for _, k := range []string{"transport-error", "https-transport-error", "404", "500", "truncated", "unparsable", "schema-404", "schema-not-json"} {
		fs = append(fs, c09Fault{Class: "retrieval", Variant: "http-" + k, Levels: []string{"root", "package"}, Apply: remote(k)})
	}
	// valid-but-unusual: must succeed with every expected mock on disk
	valid := []c09Fault{
		{Class: "valid", Variant: "baseline", Apply: func(b *c09Base, _ string, _ *simrt.Plan) {}},
		{Class: "valid", Variant: "same-path-spelled-differently", Apply: func(b *c09Base, _ string, _ *simrt.Plan) {
			d := "mocks/" + c09Mod + "/" + b.tpkg().Dir
			b.level("interface").Set("dir", "./"+d+"/")
			b.level("configs").Set("dir", d+"/x/../")
		}},
		{Class: "valid", Variant: "function-local-interface", Apply: func(b *c09Base, _ string, _ *simrt.Plan) {
			b.tpkg().Files[0].Extra += "\nfunc hasLocal() { type localIface interface{ M() }; var _ localIface }\n"
		}},
		{Class: "valid", Variant: "function-local-interface-in-all-package", Apply: func(b *c09Base, _ string, _ *simrt.Plan) {
			for i, q := range b.proj.Pkgs {
				if i != b.target {
					b.proj.Pkgs[i].Files[0].Extra += "\nfunc hasLocal() { type LocalOnly interface{ M() }; var _ LocalOnly }\n"
					b.proj.Config.Sub("packages").Sub(c09Mod+"/"+q.Dir).Sub("config").Set("all", true)
					return
				}
			}
		}},
		{Class: "valid", Variant: "build-tagged-file-with-build-tags", Apply: func(b *c09Base, _ string, _ *simrt.Plan) {
			q := b.tpkg()
			q.Files = append(q.Files, world.SrcFile{Name: "tagged.go", BuildTag: "special", Ifaces: []world.Iface{{Name: "Tagged", Methods: []int{7}}}})
			b.proj.Config.Sub("packages").Sub(b.tpath()).Sub("interfaces").Set("Tagged", world.NewY())
			b.proj.Config.Set("build-tags", "special")
			out := c09OutFile(q.Dir)
			b.expect[out] = append(b.expect[out], "MockTagged")
		}},
		{Class: "valid", Variant: "package-with-only-doc-go", Apply: func(b *c09Base, _ string, _ *simrt.Plan) {
			b.proj.Pkgs = append(b.proj.Pkgs, world.Pkg{Dir: "docs", Name: "docs", Files: []world.SrcFile{{Name: "doc.go", Extra: "// Package docs has no declarations.\n"}}})
			b.proj.Config.Sub("packages").Sub(c09Mod+"/docs").Sub("config").Set("all", true)
		}},
		{Class: "valid", Variant: "external-test-package-present", Apply: func(b *c09Base, _ string, _ *simrt.Plan) {
			q := b.tpkg()
			b.proj.Aux[q.Dir+"/ext_test.go"] = "package " + q.Name + "_test\n\nimport \"testing\"\n\nfunc TestNothing(t *testing.T) {}\n"
		}},
		{Class: "valid", Variant: "null-package-entry-under-root-all", Apply: func(b *c09Base, _ string, _ *simrt.Plan) {
			for i, q := range b.proj.Pkgs {
				if i != b.target {
					b.proj.Config.Set("all", true)
					b.proj.Config.Sub("packages").Set(c09Mod+"/"+q.Dir, nil)
					return
				}
			}
		}},
		{Class: "valid", Variant: "null-interface-entry", Apply: func(b *c09Base, _ string, _ *simrt.Plan) {
			names := b.tpkg().AllIfaces(nil)
			last := names[len(names)-1]
			b.proj.Config.Sub("packages").Sub(b.tpath()).Sub("interfaces").Set(last, nil)
		}},
		{Class: "valid", Variant: "configs-first-entry-empty", Apply: func(b *c09Base, _ string, _ *simrt.Plan) {
			e := b.proj.Config.Sub("packages").Sub(b.tpath())
			e.Sub("interfaces").Sub(b.i1).Set("configs", []any{world.NewY(), world.NewY().Set("structname", "Mock"+b.i1+"B")})
			out := c09OutFile(b.tpkg().Dir)
			var keep []string
			for _, sn := range b.expect[out] {
				if sn != "Mock"+b.i1+"A" {
					keep = append(keep, sn)
				}
			}
			b.expect[out] = append(keep, "Mock"+b.i1)
		}},
		{Class: "valid", Variant: "empty-configs-list", Apply: func(b *c09Base, _ string, _ *simrt.Plan) {
			names := b.tpkg().AllIfaces(nil)
			last := names[len(names)-1]
			b.proj.Config.Sub("packages").Sub(b.tpath()).Sub("interfaces").Set(last, world.NewY().Set("configs", []any{}))
		}},
		{Class: "valid", Variant: "unexported-and-alias-declarations-present", Apply: func(b *c09Base, _ string, _ *simrt.Plan) {
			b.tpkg().Files[0].Extra += "\ntype generic[T any] interface{ Get() T }\n\ntype intGetter = generic[int]\n\ntype lower interface{ m() }\n\ntype NotIface func(int) string\n\nvar _ intGetter\nvar _ lower\n"
		}},
		{Class: "valid", Variant: "alias-and-instantiation-declarations-in-all-package", Apply: func(b *c09Base, _ string, _ *simrt.Plan) {
			// aliases and instantiations are not method-set interfaces of their own: with all: true
			// they are skipped, the run succeeds and the real interfaces are mocked
			for i, q := range b.proj.Pkgs {
				if i != b.target {
					b.proj.Pkgs[i].Files[0].Extra += "\ntype Boxed[T any] interface{ Unbox() T }\n\ntype IntBox = Boxed[int]\n\ntype StrBox Boxed[string]\n\ntype Plain = interface{ P() }\n\ntype AliasOfNamed = Thing\n"
					b.proj.Config.Sub("packages").Sub(c09Mod+"/"+q.Dir).Sub("config").Set("all", true)
					return
				}
			}
		}},
		{Class: "valid", Variant: "generic-interfaces-with-assorted-constraints", Apply: func(b *c09Base, _ string, _ *simrt.Plan) {
			q := b.tpkg()
			q.Files = append(q.Files, world.SrcFile{Name: "generic.go", Extra: `import "time"

type Celsius float64

type Gauge[T Celsius] interface{ Read() T }

type Dur[D interface {
	time.Duration
	String() string
}] interface{ Wait(d D) error }

type Num[T ~int | ~int64] interface{ Add(a, b T) T }

type Str[T interface {
	~string
	Len() int
}] interface{ Get() T }

type Pair[K comparable, V any] interface{ Put(k K, v V) (V, bool) }
`})
			ifs := b.proj.Config.Sub("packages").Sub(b.tpath()).Sub("interfaces")
			out := c09OutFile(q.Dir)
			for _, n := range []string{"Gauge", "Dur", "Num", "Str", "Pair"} {
				ifs.Set(n, world.NewY())
				b.expect[out] = append(b.expect[out], "Mock"+n)
			}
		}},
		// an interface listed by name is configured whatever the regexes say (they select among
		// the unlisted ones)
		{Class: "valid", Variant: "listed-interfaces-match-exclude-regex@root", Apply: func(b *c09Base, _ string, _ *simrt.Plan) {
			b.proj.Config.Set("include-interface-regex", ".*").Set("exclude-interface-regex", ".*")
		}},
		{Class: "valid", Variant: "listed-interfaces-match-exclude-regex@package", Apply: func(b *c09Base, _ string, _ *simrt.Plan) {
			b.level("package").Set("include-interface-regex", "^NoSuchName$").Set("exclude-interface-regex", "[A-Za-z]")
		}},
		{Class: "valid", Variant: "exclude-regex-without-include-regex", Apply: func(b *c09Base, _ string, _ *simrt.Plan) {
			b.proj.Config.Set("exclude-interface-regex", ".*")
		}},
		// scale: more packages than any batch size a loader might use
		{Class: "valid", Variant: "seventy-listed-packages", Apply: func(b *c09Base, _ string, _ *simrt.Plan) {
			for k := 0; k < 70; k++ {
				d := fmt.Sprintf("many/p%02d", k)
				n := fmt.Sprintf("Svc%02d", k)
				b.proj.Pkgs = append(b.proj.Pkgs, world.Pkg{Dir: d, Name: fmt.Sprintf("p%02d", k), Files: []world.SrcFile{{Name: "svc.go", Ifaces: []world.Iface{{Name: n, Methods: []int{k % len(world.MethodPool)}}}}}})
				b.proj.Config.Sub("packages").Sub(c09Mod+"/"+d).Sub("config").Set("all", true)
				b.expect[c09OutFile(d)] = []string{"Mock" + n}
			}
		}},
		{Class: "valid", Variant: "seventy-sub-packages-of-one-recursive-package", Apply: func(b *c09Base, _ string, _ *simrt.Plan) {
			b.proj.Pkgs = append(b.proj.Pkgs, world.Pkg{Dir: "tree", Name: "tree", Files: []world.SrcFile{{Name: "tree.go", Ifaces: []world.Iface{{Name: "Root", Methods: []int{7}}}}}})
			b.expect[c09OutFile("tree")] = []string{"MockRoot"}
			for k := 0; k < 70; k++ {
				d := fmt.Sprintf("tree/s%02d", k)
				n := fmt.Sprintf("Leaf%02d", k)
				b.proj.Pkgs = append(b.proj.Pkgs, world.Pkg{Dir: d, Name: fmt.Sprintf("s%02d", k), Files: []world.SrcFile{{Name: "leaf.go", Ifaces: []world.Iface{{Name: n, Methods: []int{k % len(world.MethodPool)}}}}}})
				b.expect[c09OutFile(d)] = []string{"Mock" + n}
			}
			b.proj.Config.Sub("packages").Sub(c09Mod+"/tree").Sub("config").Set("all", true).Set("recursive", true)
		}},
		{Class: "valid", Variant: "gomod-module-tab", Apply: func(b *c09Base, _ string, _ *simrt.Plan) {
			b.proj.GoModText = "module\t" + c09Mod + "\n" + world.GoModTail
		}},
		{Class: "valid", Variant: "gomod-module-quoted", Apply: func(b *c09Base, _ string, _ *simrt.Plan) {
			b.proj.GoModText = "module \"" + c09Mod + "\"\n" + world.GoModTail
		}},
		{Class: "valid", Variant: "gomod-module-trailing-comment", Apply: func(b *c09Base, _ string, _ *simrt.Plan) {
			b.proj.GoModText = "module " + c09Mod + " // the module\n" + world.GoModTail
		}},
		{Class: "valid", Variant: "gomod-module-two-spaces", Apply: func(b *c09Base, _ string, _ *simrt.Plan) {
			b.proj.GoModText = "module  " + c09Mod + "\n" + world.GoModTail
		}},
		{Class: "valid", Variant: "gomod-module-block", Apply: func(b *c09Base, _ string, _ *simrt.Plan) {
			b.proj.GoModText = "module (\n\t" + c09Mod + "\n)\n" + world.GoModTail
		}},
		{Class: "valid", Variant: "gomod-leading-comment-mentions-module", Apply: func(b *c09Base, _ string, _ *simrt.Plan) {
			b.proj.GoModText = "// module of the example\nmodule " + c09Mod + "\n" + world.GoModTail
		}},
	}
	for i := range valid {
		valid[i].Valid = true
		valid[i].Levels = []string{""}
	}
	return append(fs, valid...)
}

// corruptions are applied to the materialisable tree of the valid baseline: a flipped byte, a
// truncation, garbage. What the right exit status is depends on what the damaged bytes happen
// to mean, so these cases are held only to "exits, never by an unrecovered panic".
var c09Corruptions = []string{"config-flip-byte", "config-truncate", "config-empty", "config-binary", "config-is-directory", "config-yaml-shape", "source-flip-byte", "source-truncate", "gomod-flip-byte", "gomod-truncate", "gosum-garbage",
	"template-flip-byte", "template-truncate", "template-shape", "schema-flip-byte", "schema-truncate", "schema-shape",
	"source-shape", "source-shape", "no-config-anywhere",
	"migrate-v2-config", "migrate-flip-byte", "migrate-truncate", "migrate-yaml-shape", "showconfig-flip-byte", "showconfig-yaml-shape"}

// exotic but legal declarations appended to a source file of a package selected with all: true
var c09SourceShapes = []string{
	"type _ interface{ M() }\n",
	"type Outer[T any] interface{ Inner() interface{ Deep(T) T } }\n",
	"type Rec interface{ Next() Rec; Map() map[Rec][]chan<- Rec }\n",
	"type EmbedsGeneric interface{ Holder[int]; Extra() }\n\ntype Holder[T any] interface{ Hold(T) }\n",
	"type WithUnexported interface{ exported(); Exported() }\n",
	"type FuncHeavy interface{ F(func(func(int) (string, error)) func() chan func()) }\n",
	"type ManyResults interface{ M() (a, b, c, d, e, f, g, h int, err error) }\n",
	"type Keywords interface{ M(string_ string, type_ int, func_ bool) (range_ error) }\n",
	"type Unicode接口 interface{ 方法(参数 string) (结果 error) }\n",
	"type Anon interface{ M(struct{ A int; B struct{ C []map[string]*int } }) struct{ X, Y float64 } }\n",
	"type Constraint interface{ ~int | ~string }\n\ntype UsesConstraint[T Constraint] interface{ Do(T) T }\n",
	"type Cmp[T comparable] interface{ Eq(a, b T) bool }\n\ntype CmpInt = Cmp[int]\n\ntype CmpNamed Cmp[string]\n",
	"type Variadics interface{ A(...int); B(a int, b ...interface{}) (int, error); C(...func(...int)) }\n",
	"type Arrays interface{ M([0]int, [1 << 3]string, [len(\"abc\")]bool) }\n",
	"type EmptyIface interface{}\n\ntype AliasAny = any\n\ntype UsesEmpty interface{ M(EmptyIface, AliasAny) }\n",
	"type Blank interface{ M(_ int, _ string) (_ int, _ error) }\n",
	"type CRLF interface{\r\n\tM() error\r\n}\r\n",
}

const c09V2Config = `with-expecter: true
inpackage: false
keeptree: false
dir: "mocks/{{.PackagePath}}"
filename: "mock_{{.InterfaceName}}.go"
mockname: "Mock{{.InterfaceName}}"
outpkg: mocks
issue-845-fix: true
resolve-type-alias: false
disable-version-string: true
replace-type:
  - example.com/w/a.T=example.com/w/b.U
packages:
  example.com/w/a:
    config:
      all: true
      recursive: true
      include-regex: ".*"
      exclude-regex: "Skip.*"
    interfaces:
      Foo:
        config:
          mockname: FooMock
          unroll-variadic: false
        configs:
          - mockname: FooAlt
            filename: alt.go
          - {}
  example.com/w/b: {}
  example.com/w/c:
`

var c09TemplateShapes = []string{
	"{{", "{{ .Nope.Deeper }}", "{{ index .Interfaces 99 }}", "{{ range .Interfaces }}{{ index .Methods 99 }}{{ end }}", "{{ template \"missing\" . }}", "{{ define \"x\" }}{{ template \"x\" . }}{{ end }}package p",
	"{{ .Registry.AddImport \"\" \"\" }}package p", "{{ (index .Interfaces 0).TypeConstraint }}{{ printf \"%s\" nil }}package p", "{{ readFile \"/nonexistent\" }}", "{{ .TemplateData.nope.deeper }}package p",
	"{{ $x := index .TemplateData \"k\" }}{{ $x.y }}package p", "{{ range $i, $m := (index .Interfaces 0).Methods }}{{ $m.Scope.AllocateName \"\" }}{{ end }}package p", "{{ exported \"\" }}{{ firstIsLower \"\" }}package p",
	"package {{.PkgName}}\n{{ .Imports.PkgQualifier \"no/such\" }}", "{{ (index (index .Interfaces 0).Methods 0).ArgCallListSlice 5 2 }}package p", "{{ (index (index .Interfaces 0).Methods 0).ArgCallListSlice 0 99 }}package p",
}

var c09SchemaShapes = []string{
	"[]", "42", "{\"type\": 5}", "{\"properties\": 3}", "{\"$ref\": \"#/nope\"}", "{\"$ref\": \"#\"}", "{\"type\": \"object\", \"required\": \"owner\"}", "{\"allOf\": []}", "{\"type\": [\"object\", 7]}",
	"{\"$ref\": \"http://origin.test/other.json\"}", "{\"$schema\": \"http://nowhere.test/draft\", \"type\": \"object\"}", "{\"patternProperties\": {\"(\": {}}}", "{\"type\":\"object\",\"properties\":{\"a\":{\"$ref\":\"#/properties/a\"}}}",
	"{\"definitions\": {\"x\": {\"$ref\": \"#/definitions/x\"}}, \"$ref\": \"#/definitions/x\"}", "{\"enum\": []}", "{\"multipleOf\": 0}", "{\"minimum\": \"zero\"}",
}

var c09YAMLShapes = []string{
	"packages: []\n", "packages: \"str\"\n", "packages:\n  example.com/w/a: []\n", "packages:\n  example.com/w/a:\n    interfaces: \"x\"\n",
	"packages:\n  example.com/w/a:\n    interfaces:\n      Foo: []\n", "packages:\n  example.com/w/a:\n    interfaces:\n      Foo:\n        configs: {a: 1}\n",
	"all: \"yes\"\npackages:\n  example.com/w/a: {}\n", "template-data: \"str\"\npackages:\n  example.com/w/a: {config: {all: true}}\n",
	"replace-type: [1, 2]\npackages:\n  example.com/w/a: {config: {all: true}}\n", "replace-type:\n  p:\n    T: \"notamap\"\npackages:\n  example.com/w/a: {config: {all: true}}\n",
	"exclude-subpkg-regex: \"notalist\"\npackages:\n  example.com/w/a: {config: {all: true, recursive: true}}\n", "a: &a [*a]\n", "packages: &p\n  x: *p\n", "- just\n- a\n- list\n", "42\n", "null\n",
	"packages:\n  ? [complex, key]\n  : {}\n", "packages:\n  example.com/w/a:\n    config:\n      all: true\n      all: false\n", "_anchors: {x: &x {all: true}}\npackages:\n  example.com/w/a:\n    config: *x\n",
	"template-data: {k: \"scalar\"}\npackages:\n  example.com/w/a:\n    config:\n      all: true\n      template-data: {k: {nested: 1}}\n",
	"template-data: {k: [1, 2]}\npackages:\n  example.com/w/a:\n    config: {all: true}\n    interfaces:\n      Store:\n        config:\n          template-data: {k: {nested: true}}\n",
	"template-data: {k: null}\npackages:\n  example.com/w/a:\n    config:\n      all: true\n      template-data: {k: {a: {b: {c: 1}}}}\n",
	"template-data: {k: {a: 1}}\npackages:\n  example.com/w/a:\n    config:\n      all: true\n      template-data: {k: \"scalar-below-map\"}\n",
	"_anchors: {k: 1}\npackages:\n  example.com/w/a:\n    config:\n      all: true\n      _anchors: {k: {m: 2}}\n",
	"template-data: {k: {a: 1}}\npackages:\n  example.com/w/a:\n    config: {all: true}\n    interfaces:\n      Store:\n        configs:\n          - template-data: {k: 7}\n          - template-data: {k: {a: [1]}}\n",
	"log-level: shout\npackages:\n  example.com/w/a: {config: {all: true}}\n", "build-tags: [a, b]\npackages:\n  example.com/w/a: {config: {all: true}}\n",
}

func c09Corrupt(t world.Tree, kind string, r *core.Rng) world.Tree {
	n := t.Clone()
	if strings.HasPrefix(kind, "template-") || strings.HasPrefix(kind, "schema-") {
		// switch the world to a custom template with a schema file, then damage one of the two
		n.Files["templates/probe.templ"] = probeTemplate
		n.Files["templates/probe.templ.schema.json"] = `{"type": "object", "properties": {"owner": {"type": "string"}}}`
		cfgLines := strings.SplitAfter(n.Files[".mockery.yml"], "\n")
		var kept []string
		for _, l := range cfgLines {
			if strings.HasPrefix(l, "\"template\":") || strings.HasPrefix(l, "\"formatter\":") {
				continue
			}
			kept = append(kept, l)
		}
		n.Files[".mockery.yml"] = "\"template\": \"file://" + world.RootPlaceholder + "/templates/probe.templ\"\n\"formatter\": \"noop\"\n\"template-data\": {\"owner\": \"me\"}\n" + strings.Join(kept, "")
	}
	pickSrc := func() string {
		var srcs []string
		for _, p := range core.SortedKeys(n.Files) {
			if strings.HasSuffix(p, ".go") {
				srcs = append(srcs, p)
			}
		}
		return core.Pick(r, srcs)
	}
	flip := func(p string) {
		b := []byte(n.Files[p])
		if len(b) == 0 {
			return
		}
		i := r.Intn(len(b))
		b[i] ^= byte(1 << uint(r.Intn(7)))
		n.Files[p] = string(b)
	}
	trunc := func(p string) {
		b := n.Files[p]
		n.Files[p] = b[:r.Intn(len(b)+1)]
	}
	switch kind {
	case "config-flip-byte":
		flip(".mockery.yml")
	case "config-truncate":
		trunc(".mockery.yml")
	case "config-empty":
		n.Files[".mockery.yml"] = ""
	case "config-binary":
		n.Files[".mockery.yml"] = "\x00\xff\xfe\x7f\x80packages\x00:\n\t- \x1b[31m"
	case "config-is-directory":
		delete(n.Files, ".mockery.yml")
		n.Dirs = append(n.Dirs, ".mockery.yml")
	case "config-yaml-shape":
		n.Files[".mockery.yml"] = core.Pick(r, c09YAMLShapes)
	case "source-flip-byte":
		flip(pickSrc())
	case "source-truncate":
		trunc(pickSrc())
	case "gomod-flip-byte":
		flip("go.mod")
	case "gomod-truncate":
		trunc("go.mod")
	case "gosum-garbage":
		n.Files["go.sum"] = "not a go.sum\n\x00\n"
	case "source-shape":
		// into a package selected with all: true (make one so)
		src := pickSrc()
		n.Files[src] += "\n" + core.Pick(r, c09SourceShapes)
		n.Files[".mockery.yml"] = strings.Replace(n.Files[".mockery.yml"], "\"packages\":\n", "\"all\": true\n\"packages\":\n", 1)
	case "no-config-anywhere":
		delete(n.Files, ".mockery.yml")
	case "migrate-v2-config":
		n.Files[".mockery.yml"] = c09V2Config
	case "migrate-flip-byte":
		n.Files[".mockery.yml"] = c09V2Config
		flip(".mockery.yml")
	case "migrate-truncate":
		n.Files[".mockery.yml"] = c09V2Config
		trunc(".mockery.yml")
	case "migrate-yaml-shape", "showconfig-yaml-shape":
		n.Files[".mockery.yml"] = core.Pick(r, c09YAMLShapes)
	case "showconfig-flip-byte":
		flip(".mockery.yml")
	case "template-flip-byte":
		flip("templates/probe.templ")
	case "template-truncate":
		trunc("templates/probe.templ")
	case "template-shape":
		n.Files["templates/probe.templ"] = core.Pick(r, c09TemplateShapes)
	case "schema-flip-byte":
		flip("templates/probe.templ.schema.json")
	case "schema-truncate":
		trunc("templates/probe.templ.schema.json")
	case "schema-shape":
		n.Files["templates/probe.templ.schema.json"] = core.Pick(r, c09SchemaShapes)
	}
	return n
}

type c09Spec struct {
	corrupt string
	world   int
	faults  []struct {
		f  int
		lv string
	}
	policy string
	seed   uint64
}

func c09Build(base *c09Base, all []c09Fault, sp c09Spec) c09Case {
	if sp.corrupt != "" {
		b := base.clone()
		r := core.NewRng(sp.seed)
		var args []string
		if strings.HasPrefix(sp.corrupt, "migrate-") {
			args = []string{"migrate", "--config", ".mockery.yml", "--outfile", "migrated_v3.yml"}
		}
		if strings.HasPrefix(sp.corrupt, "showconfig-") {
			args = []string{"showconfig"}
		}
		return c09Case{Tree: c09Corrupt(b.proj.Tree(), sp.corrupt, r), Step: world.Step{Args: args, Plan: world.Plan(sp.policy, sp.seed, 0, 2001+sp.world, 500+sp.world)},
			Faults: []string{"corrupt/" + sp.corrupt}, Expect: map[string][]string{}, Unjudged: true}
	}
	b := base.clone()
	plan := world.Plan(sp.policy, sp.seed, 0, 2001+sp.world, 500+sp.world)
	var labels []string
	unusual := ""
	unjudged := false
	for _, fl := range sp.faults {
		f := all[fl.f]
		f.Apply(b, fl.lv, &plan)
		lab := f.Class + "/" + f.Variant
		if fl.lv != "" {
			lab += "@" + fl.lv
		}
		if f.Valid {
			unusual = f.Variant
		} else {
			labels = append(labels, lab)
		}
		if f.Unjudged {
			unjudged = true
		}
	}
	t := b.proj.Tree()
	if b.proj.GoModText == "\x00delete" {
		delete(t.Files, "go.mod")
		delete(t.Files, "go.sum")
	}
	return c09Case{Tree: t, Step: world.Step{Plan: plan}, Faults: labels, Expect: b.expect, Unusual: unusual, Unjudged: unjudged}
}

var structDeclRe = regexp.MustCompile(`(?m)^type\s+(\w+)(\[[^\]]*\])?\s+struct\b`)

// missingMocks lists expected mocks that are not on disk under root.
func missingMocks(root string, expect map[string][]string) []string {
	var miss []string
	for _, f := range core.SortedKeys(expect) {
		if len(expect[f]) == 0 {
			continue
		}
		b, err := world.ReadRegular(filepath.Join(root, f))
		if err != nil {
			miss = append(miss, f+" (file absent)")
			continue
		}
		have := map[string]bool{}
		for _, m := range structDeclRe.FindAllStringSubmatch(string(b), -1) {
			have[m[1]] = true
		}
		for _, s := range expect[f] {
			if !have[s] {
				miss = append(miss, f+":"+s)
			}
		}
	}
	return miss
}

func evalC09(c *core.Ctx, cs c09Case, id string) Outcome {
	out := Outcome{}
	base := filepath.Join(c.Scratch, "w", id)
	root := filepath.Join(base, "root")
	defer world.RemoveAll(base)
	if err := cs.Tree.Materialise(root); err != nil {
		out.Trouble = err.Error()
		return out
	}
	res := world.Run(c.Bin, root, base, cs.Step, 60*time.Second)
	out.Runs = 1
	if res.TimedOut {
		// confirm alone: a hang is a C09 violation ("did not exit"), load is not
		res = world.Run(c.Bin, root, base, cs.Step, 120*time.Second)
		out.Runs++
	}
	site := strings.Join(cs.Faults, "+")
	if site == "" {
		site = "valid/" + cs.Unusual
	}
	out.Scheds = []string{res.OrderVector()}
	out.Key = core.HashStr(site, res.OrderVector(), world.TreeDigest(cs.Tree))
	out.Nontrivial = len(cs.Expect) >= 2
	for _, f := range cs.Faults {
		out.Tags = append(out.Tags, "fault:"+strings.SplitN(f, "@", 2)[0])
	}
	if cs.Unusual != "" {
		out.Tags = append(out.Tags, "valid:"+cs.Unusual)
	}
	for _, e := range res.Events {
		if e.Ev == "http" {
			out.Tags = append(out.Tags, "http-fired:"+e.Kind)
		}
	}
	miss := missingMocks(root, cs.Expect)
	mk := func(clause, exp, obs string) Outcome {
		out.Sig = &core.Signature{Clause: clause, Site: site, Trigger: c09Trigger(res)}
		out.Expected, out.Observed = exp, obs
		return out
	}
	switch {
	case res.TimedOut:
		return mk("did-not-exit", "mockery exits", "no exit within 120 s (twice)")
	case res.Panicked() || res.Signal != "":
		return mk("unrecovered-panic", "no Go panic on any input", fmt.Sprintf("exit %d %s; stderr tail: %s", res.Exit, res.Signal, tail(res.Stderr, 700)))
	}
	if cs.Unjudged {
		out.Tags = append(out.Tags, fmt.Sprintf("unjudged-exit:%d:%s", res.Exit, site))
		return out
	}
	if len(cs.Faults) > 0 {
		out.Tags = append(out.Tags, fmt.Sprintf("invalid-exit:%d", res.Exit))
		if res.Exit == 0 {
			return mk("invalid-input-exit-0", "non-zero exit with a diagnostic for "+site, fmt.Sprintf("exit 0; missing mocks: %v; output tail: %s", miss, tail(res.Stderr+res.Stdout, 400)))
		}
		if !res.HasDiagnostic() {
			return mk("no-diagnostic", "an error-level diagnostic", "exit "+fmt.Sprint(res.Exit)+" with output: "+tail(res.Stderr+res.Stdout, 400))
		}
		return out
	}
	if res.Exit != 0 {
		return mk("valid-input-fails", "exit 0 for valid input ("+site+")", fmt.Sprintf("exit %d; tail: %s", res.Exit, tail(res.Stderr+res.Stdout, 700)))
	}
	if len(miss) > 0 {
		return mk("exit-0-but-mock-missing", "exit 0 only if every configured mock was generated and written", fmt.Sprintf("exit 0, missing: %v", miss))
	}
	return out
}

// c09DropPkg removes the package whose output file is out: its source files, its entry under
// `packages:` and its expectation.
func c09DropPkg(cs c09Case, out string) (c09Case, bool) {
	pkgPath := strings.TrimSuffix(strings.TrimPrefix(out, "mocks/"), "/mocks.go")
	dir := strings.TrimPrefix(pkgPath, c09Mod+"/")
	cfg, ok := cs.Tree.Files[".mockery.yml"]
	if !ok || dir == pkgPath {
		return cs, false
	}
	lines := strings.SplitAfter(cfg, "\n")
	var kept []string
	found, skipping := false, false
	for _, l := range lines {
		if skipping {
			if strings.HasPrefix(l, "    ") || strings.TrimSpace(l) == "" {
				continue
			}
			skipping = false
		}
		if strings.HasPrefix(l, "  "+fmt.Sprintf("%q", pkgPath)+":") {
			found, skipping = true, true
			continue
		}
		kept = append(kept, l)
	}
	if !found {
		return cs, false
	}
	n := cs
	n.Tree = cs.Tree.Clone()
	n.Tree.Files[".mockery.yml"] = strings.Join(kept, "")
	for p := range n.Tree.Files {
		if strings.HasPrefix(p, dir+"/") && !strings.Contains(strings.TrimPrefix(p, dir+"/"), "/") {
			delete(n.Tree.Files, p)
		}
	}
	n.Expect = map[string][]string{}
	for k, v := range cs.Expect {
		if k != out {
			n.Expect[k] = v
		}
	}
	if len(n.Expect) == 0 {
		return cs, false
	}
	return n, true
}

func c09Trigger(res world.StepResult) string {
	if res.Panicked() {
		// name the panic by its first line and top frame in mockery
		lines := strings.Split(res.Stderr, "\n")
		msg, frame := "", ""
		for i, l := range lines {
			if (strings.HasPrefix(l, "panic:") || strings.HasPrefix(l, "fatal error:")) && msg == "" {
				msg = strings.TrimSpace(l)
				if len(msg) > 80 {
					msg = msg[:80]
				}
			}
			if strings.HasPrefix(l, "github.com/vektra/mockery/v3") && frame == "" && i+1 < len(lines) {
				frame = strings.TrimSpace(l)
				if j := strings.Index(frame, "("); j > 0 {
					frame = frame[:j]
				}
			}
		}
		return msg + " in " + frame
	}
	return "-"
}

func RunC09(c *core.Ctx) int {
	c.PrepareRepo(true)
	faults := c09Faults()
	nWorlds, nPairs := 1, 40
	budget := 20 * time.Minute // quick: the case count is the contract, the clock only a watchdog
	policies := []string{"asc", "desc"}
	if c.Tier == "thorough" {
		nWorlds, nPairs = 8, 400
		budget = 28 * time.Minute
		policies = []string{"asc", "desc", "random"}
	}
	var bases []*c09Base
	var specs []c09Spec
	invalidIdx := []int{}
	for i, f := range faults {
		if !f.Valid && !f.Unjudged {
			invalidIdx = append(invalidIdx, i)
		}
	}
	for w := 0; w < nWorlds; w++ {
		bases = append(bases, c09Baseline(core.Stream(c.Seed, "c09-world", w)))
		r := core.Stream(c.Seed, "c09-plan", w)
		for i, f := range faults {
			for _, lv := range f.Levels {
				for _, pol := range policies {
					sp := c09Spec{world: w, policy: pol, seed: r.Uint64()}
					sp.faults = append(sp.faults, struct {
						f  int
						lv string
					}{i, lv})
					specs = append(specs, sp)
				}
			}
		}
		for k := 0; k < nPairs; k++ {
			a := core.Pick(r, invalidIdx)
			bb := core.Pick(r, invalidIdx)
			if faults[a].Class == faults[bb].Class {
				continue
			}
			sp := c09Spec{world: w, policy: core.Pick(r, []string{"asc", "desc", "random"}), seed: r.Uint64()}
			for _, fi := range []int{a, bb} {
				sp.faults = append(sp.faults, struct {
					f  int
					lv string
				}{fi, core.Pick(r, faults[fi].Levels)})
			}
			// two injections at the same configuration node may overwrite each other's key (an
			// unknown template replaced by a valid one): such a pair is not two invalidities
			if sp.faults[0].lv != "" && sp.faults[0].lv == sp.faults[1].lv {
				continue
			}
			specs = append(specs, sp)
		}
	}
	nCorrupt := 230
	if c.Tier == "thorough" {
		nCorrupt = 8000
	}
	for k := 0; k < nCorrupt; k++ {
		r := core.Stream(c.Seed, "c09-corrupt", k)
		specs = append(specs, c09Spec{corrupt: c09Corruptions[k%len(c09Corruptions)], world: r.Intn(nWorlds), policy: core.Pick(r, []string{"asc", "desc", "random"}), seed: r.Uint64()})
	}
	single := 0
	for _, sp := range specs {
		if len(sp.faults) == 1 && sp.corrupt == "" {
			single++
		}
	}
	cp := &Campaign[c09Case]{C: c, Engine: "W", N: len(specs), Budget: budget,
		Gen: func(i int) c09Case { return c09Build(bases[specs[i].world], faults, specs[i]) },
		Eval: func(cs c09Case, id string) Outcome {
			o := evalC09(c, cs, id)
			if o.Sample == nil {
				o.Sample = map[string]any{"faults": cs.Faults, "unusual": cs.Unusual, "schedule": cs.Step.Plan.Schedule.Policy, "config": cs.Tree.Files[".mockery.yml"], "expected_mocks": cs.Expect}
			}
			return o
		},
		Shrink: func(cs c09Case, fails func(c09Case) bool, deadline time.Time) (c09Case, string) {
			// Drop whole packages (sources + config entry + expectation): this keeps a valid case
			// valid and an invalid case's other ingredients intact, so that the minimised case
			// still means the same thing after the defect is repaired.
			n0, tries := len(cs.Expect), 0
			for _, out := range core.SortedKeys(cs.Expect) {
				if time.Now().After(deadline) {
					break
				}
				cand, ok := c09DropPkg(cs, out)
				if !ok {
					continue
				}
				tries++
				if fails(cand) {
					cs = cand
				}
			}
			return cs, fmt.Sprintf("packages %d→%d (%d re-evaluations)", n0, len(cs.Expect), tries)
		},
	}
	res := cp.Run()
	classes := map[string]bool{}
	for _, f := range faults {
		classes[f.Class+"/"+f.Variant] = true
	}
	var cl []string
	for k := range classes {
		cl = append(cl, k)
	}
	sort.Strings(cl)
	rep := c.InstrReport()
	cov := map[string]any{
		"rule":                 "one evaluation = one child run of the instrumented mockery on (baseline world, injected fault(s) at one configuration level, map-iteration policy); the single-fault matrix (class × variant × every level where the setting is consulted × policy) is enumerated completely per baseline world, pairs of different classes are seeded; non-trivial = the world has ≥2 output files; distinct = hash(fault labels, order-decision vector, tree digest)",
		"fault_matrix":         cl,
		"single_fault_cases":   single,
		"pair_cases":           len(specs) - single - nCorrupt,
		"corruption_cases":     nCorrupt,
		"corruption_kinds":     c09Corruptions,
		"corruption_oracle":    "damaged config / source / go.mod bytes (flipped bit, truncation, garbage, YAML type confusions, aliases): held only to 'exits, never by an unrecovered panic' — what the right status is depends on what the damaged bytes happen to mean",
		"baseline_worlds":      nWorlds,
		"exhaustive":           !res.BudgetEnded && res.ReplayPath == "",
		"exhaustive_scope":     "the single-fault matrix per baseline world; pairs and worlds are sampled",
		"instrumented_sites":   rep.RangeSites,
		"components":           map[string]any{"real": []string{"mockery CLI (all packages)", "go list", "tmpfs"}, "instrumented": []string{fmt.Sprintf("%d map-range sites", len(rep.RangeSites)), "time.Now", "os.Getpid"}, "stub": []string{"HTTP origins (scripted RoundTripper)"}},
		"faults_fired_measure": "counters fault:<class/variant> count cases in which the invalidity was materialised into the tree/plan; http-fired:<kind> is counted by the transport when it served the scripted response",
	}
	return res.Finish(c, "fault_enumeration", cov, []string{
		"an injected invalidity is one the statement lists, placed where mockery consults the setting; which other files got written after a failure is C10's business",
		"dependencies and `go list` run un-instrumented",
	}, "fault matrix held")
}

func init() {
	registerReplayer[c09Case]("C09", func(c *core.Ctx) { c.PrepareRepo(true) }, evalC09)
}
