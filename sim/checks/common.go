package checks

import (
	"fmt"
	"path/filepath"

	"verif/sim/core"
)

// Replayers maps a property to the function that re-executes a replay file's case and
// reports whether it (still) violates the property.
var Replayers = map[string]func(c *core.Ctx, rp *core.Replay) (bool, string){}

// Runners maps a property to its check.
var Runners = map[string]func(c *core.Ctx) int{}

// BeforeReplay lets an engine look at a replay file before its pipeline is built (optional).
var BeforeReplay = map[string]func(rp *core.Replay){}

// Preparers build what a property's replayer needs (instrumented binaries etc.).
var Preparers = map[string]func(c *core.Ctx){}

func init() {
	Runners["C06"] = RunC06
	Runners["C09"] = RunC09
	Replayers["C06"] = ReplayC06
	Preparers["C06"] = func(c *core.Ctx) { c.PrepareRepo(true) }
}

// replayKnown re-executes the canonical replay of every listed known finding of this
// property. A finding that still reproduces prints a KNOWN-FINDING line. A finding listed as
// "fixed" must NOT reproduce: if it does, that is a violation again.
func replayKnown(c *core.Ctx, known []core.KnownFinding) int {
	rc := core.ExitOK
	for _, k := range known {
		if k.Replay == "" {
			continue
		}
		path := filepath.Join(c.VerifDir, k.Replay)
		rp := core.ReadReplay(path)
		f := Replayers[c.Prop]
		if f == nil {
			core.Troublef("no replayer for %s", c.Prop)
		}
		violated, detail := f(c, rp)
		switch k.Status {
		case "known":
			if violated {
				fmt.Printf("KNOWN-FINDING: property=%s %s\n", c.Prop, k.What)
			} else {
				fmt.Printf("note: known finding no longer reproduces (property=%s %s)\n", c.Prop, k.What)
			}
		case "fixed":
			if violated {
				fmt.Printf("VIOLATION property=%s replay=%s\n  (regression of fixed finding: %s)\n  %s\n", c.Prop, path, k.What, detail)
				rc = core.ExitViolation
			}
		}
	}
	return rc
}
