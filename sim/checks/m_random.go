package checks

import (
	"fmt"
	"strings"

	"verif/sim/msim"
)

// ---------------------------------------------------------------------------------------------
// Seeded random interfaces for engine M (DESIGN §5): besides the fixed corpus, every run of a
// C03/C04/C05 check generates mocks for G interfaces drawn from a type grammar — restricted to
// types whose values the reflection driver can build and compare — so that the combinations of
// template branches (nillable × variadic × number/position/naming of results × parameter naming)
// are not limited to the ones the fixed library happens to contain. The interfaces are a function
// of VERIF_SEED; a replay file carries the source text of the interface it needs.

type rndIface struct {
	Name string
	Src  string
}

// the variants random interfaces are generated for (a subset: every unit costs a mockery run and
// a compilation)
var mRndVariants = map[string]bool{"testify-default": true, "testify-unroll-false": true, "testify-unroll-true": true, "matryer-resets": true, "matryer-stub-resets": true}

type rndGen struct{ r *msim.Rng }

func (g *rndGen) pick(xs ...string) string { return xs[g.r.Intn(len(xs))] }

func (g *rndGen) scalar() string {
	return g.pick("int", "int", "string", "string", "bool", "int64", "int8", "byte", "float64", "ID", "time.Duration", "uint", "rune")
}

func (g *rndGen) key() string { return g.pick("string", "string", "int", "ID", "Pair", "int64") }

func (g *rndGen) leaf() string {
	return g.pick("error", "any", "interface{}", "io.Reader", "io.Writer", "Named", "context.Context", "io.Closer",
		"Point", "*Point", "PP", "IDs", "Table", "Pair", "AliasSlice", "[]byte", "fmt.Stringer")
}

// typ draws a type that may appear anywhere (no func types: testify compares arguments with
// ObjectsAreEqual, under which a func nested in a value never equals itself).
func (g *rndGen) typ(depth int) string {
	if depth >= 2 {
		if g.r.Chance(1, 2) {
			return g.scalar()
		}
		return g.leaf()
	}
	switch k := g.r.Intn(24); {
	case k < 7:
		return g.scalar()
	case k < 12:
		return g.leaf()
	case k < 14:
		return "[]" + g.typ(depth+1)
	case k < 16:
		return "*" + g.typ(depth+1)
	case k < 18:
		return "map[" + g.key() + "]" + g.typ(depth+1)
	case k < 19:
		return fmt.Sprintf("[%d]%s", 1+g.r.Intn(3), g.typ(depth+1))
	case k < 21:
		return g.pick("chan ", "<-chan ", "chan<- ") + g.pick(g.scalar(), "struct{}", "error", "*Point")
	case k < 23:
		return "struct {\n\t\tA " + g.typ(depth+1) + "\n\t\tB " + g.typ(depth+1) + "\n\t}"
	default:
		return "[]" + g.leaf()
	}
}

// top draws a parameter or result type: a func type may appear here only.
func (g *rndGen) top() string {
	if g.r.Chance(1, 10) {
		return g.pick("func(int) string", "func() error", "func(a, b string) bool", "Mapper", "func(...int) int", "func(p *Point)")
	}
	return g.typ(0)
}

func (g *rndGen) variadicElem() string {
	return g.pick("int", "string", "any", "interface{}", "error", "*Point", "[]byte", "Named", "ID", "float64", "Point", "map[string]int")
}

var rndParamNames = []string{"a", "b", "c", "x", "y", "n", "s", "k", "v", "p", "q", "ok", "ret", "run", "args", "i", "key", "val", "ctx", "in", "src", "dst", "m", "e", "t", "w", "f", "call", "calls", "result", "expected"}
var rndResultNames = []string{"res", "out", "err2", "cnt", "found", "value", "next", "rest", "total", "done"}
var rndVerbs = []string{"Get", "Put", "Do", "Load", "Store", "Find", "List", "Apply", "Visit", "Send", "Recv", "Open", "Sum", "Map", "Each", "Run", "Call", "On", "Return", "Name2", "String2"}

func (g *rndGen) method(idx int) string {
	name := fmt.Sprintf("%s%d", g.pick(rndVerbs...), idx)
	np := g.r.Intn(5)
	if g.r.Chance(1, 12) {
		np = 5 + g.r.Intn(4)
	}
	nr := g.r.Intn(4)
	if g.r.Chance(1, 12) {
		nr = 4 + g.r.Intn(3)
	}
	variadic := np > 0 && g.r.Chance(1, 4)
	if variadic && nr == 0 {
		nr = 1 // a result-less variadic method does not survive the formatter under unroll-variadic true (C01)
	}
	mode := "named"
	switch g.r.Intn(10) {
	case 0:
		mode = "unnamed"
	case 1:
		mode = "blank-some"
	}
	perm := make([]int, len(rndParamNames))
	for i := range perm {
		perm[i] = i
	}
	for i := len(perm) - 1; i > 0; i-- {
		j := g.r.Intn(i + 1)
		perm[i], perm[j] = perm[j], perm[i]
	}
	var ps []string
	sameAsPrev := ""
	for i := 0; i < np; i++ {
		ty := g.top()
		if sameAsPrev != "" && g.r.Chance(1, 3) {
			ty = sameAsPrev // neighbouring parameters of one type: an index mix-up still compiles
		}
		sameAsPrev = ty
		if variadic && i == np-1 {
			ty = "..." + g.variadicElem()
		}
		switch {
		case mode == "unnamed":
			ps = append(ps, ty)
		case mode == "blank-some" && g.r.Chance(1, 2):
			ps = append(ps, "_ "+ty)
		default:
			ps = append(ps, rndParamNames[perm[i]]+" "+ty)
		}
	}
	var rs []string
	namedRes := nr > 0 && g.r.Chance(1, 5)
	errAt := -1
	if nr > 0 && g.r.Chance(1, 2) {
		errAt = nr - 1
		if g.r.Chance(1, 5) {
			errAt = g.r.Intn(nr)
		}
	}
	prev := ""
	for i := 0; i < nr; i++ {
		ty := g.top()
		if prev != "" && g.r.Chance(1, 3) {
			ty = prev
		}
		if i == errAt {
			ty = "error"
		}
		prev = ty
		if namedRes {
			rs = append(rs, rndResultNames[(idx+i)%len(rndResultNames)]+" "+ty)
		} else {
			rs = append(rs, ty)
		}
	}
	res := ""
	switch {
	case nr == 1 && !namedRes:
		res = " " + rs[0]
	case nr > 0:
		res = " (" + strings.Join(rs, ", ") + ")"
	}
	return fmt.Sprintf("\t%s(%s)%s\n", name, strings.Join(ps, ", "), res)
}

// mRandomIfaces draws n interfaces from seed.
func mRandomIfaces(seed uint64, n int) []rndIface {
	var out []rndIface
	for k := 0; k < n; k++ {
		g := &rndGen{r: msim.NewRng(seed ^ (uint64(k)+1)*0xA24BAED4963EE407)}
		name := fmt.Sprintf("Rnd%d", k)
		var b strings.Builder
		fmt.Fprintf(&b, "type %s interface {\n", name)
		if g.r.Chance(1, 6) {
			b.WriteString("\t" + g.pick("Named", "io.Closer", "fmt.Stringer") + "\n")
		}
		nm := 1 + g.r.Intn(5)
		for i := 0; i < nm; i++ {
			b.WriteString(g.method(i))
		}
		b.WriteString("}\n")
		out = append(out, rndIface{Name: name, Src: b.String()})
	}
	return out
}

// mCorpusHeader is mCorpusSrc with the imports random interfaces may need (each one used, so the
// file compiles whether or not an interface refers to it).
func mCorpusWith(extra []rndIface) string {
	src := strings.Replace(mCorpusSrc, "import (\n\t\"context\"\n\t\"io\"\n)", "import (\n\t\"context\"\n\t\"fmt\"\n\t\"io\"\n\t\"time\"\n)\n\nvar (\n\t_ fmt.Stringer\n\t_ time.Duration\n)", 1)
	var b strings.Builder
	b.WriteString(src)
	for _, e := range extra {
		b.WriteString("\n" + e.Src)
	}
	return b.String()
}
