package checks

import (
	"encoding/json"
	"fmt"
	"os"
	"sort"
	"strings"
	"time"

	"verif/sim/core"
	"verif/sim/world"
)

// Outcome is what evaluating one case yields, for every engine.
type Outcome struct {
	Sig        *core.Signature
	Expected   string
	Observed   string
	Trouble    string   // harness/build/watchdog trouble: exit 2, never a violation
	Runs       int      // simulated executions performed
	Tags       []string // counters: features, faults fired, probes hit
	Nontrivial bool
	Key        string // distinctness key of the case×schedule
	Sample     any
	Discarded  bool     // reference run failed etc.: counted, never reported
	Scheds     []string // schedule decision vectors seen
	Steps      int      // simulated steps (engine M) or events
	Inconcl    int
}

// Campaign is the seeded search loop shared by all checks: cases are numbered before
// dispatch, evaluated by a worker pool and folded in case order.
type Campaign[T any] struct {
	C       *core.Ctx
	Engine  string
	N       int
	Budget  time.Duration
	Gen     func(i int) T
	Eval    func(cs T, id string) Outcome
	Shrink  func(cs T, fails func(T) bool, deadline time.Time) (T, string) // optional
	Batch   int
	MaxSamp int
}

type CampaignResult struct {
	Cases       int
	Evals       int
	Distinct    map[string]bool
	Scheds      map[string]bool
	Tags        *core.Counter
	KnownSeen   *core.Counter
	Samples     []any
	Violations  int
	Unrepro     int
	Discarded   int
	Inconcl     int
	Steps       int
	ReplayPath  string
	First       *Outcome
	Suppressed  int
	BudgetEnded bool
}

func (cp *Campaign[T]) Run() *CampaignResult {
	c := cp.C
	res := &CampaignResult{Distinct: map[string]bool{}, Scheds: map[string]bool{}, Tags: core.NewCounter(), KnownSeen: core.NewCounter()}
	known := c.LoadKnown()
	batch := cp.Batch
	if batch == 0 {
		batch = c.Jobs * 2
	}
	maxSamp := cp.MaxSamp
	if maxSamp == 0 {
		maxSamp = 3
	}
	deadline := c.Start.Add(cp.Budget)
	type item struct {
		cs  T
		out Outcome
	}
	for start := 0; start < cp.N; start += batch {
		if time.Now().After(deadline) {
			res.BudgetEnded = true
			break
		}
		n := batch
		if start+n > cp.N {
			n = cp.N - start
		}
		items := core.ParallelMap(c.Jobs, n, func(i int) item {
			cs := cp.Gen(start + i)
			return item{cs, cp.Eval(cs, fmt.Sprintf("c%d", start+i))}
		})
		for i := range items {
			it := &items[i]
			if it.out.Trouble != "" {
				core.Troublef("%s case %d: %s", c.Prop, start+i, it.out.Trouble)
			}
			res.Cases++
			res.Evals += it.out.Runs
			res.Steps += it.out.Steps
			res.Inconcl += it.out.Inconcl
			for _, t := range it.out.Tags {
				res.Tags.Inc(t)
			}
			for _, s := range it.out.Scheds {
				res.Scheds[s] = true
			}
			if it.out.Discarded {
				res.Discarded++
				continue
			}
			if it.out.Nontrivial && it.out.Key != "" {
				res.Distinct[it.out.Key] = true
			}
			if len(res.Samples) < maxSamp && it.out.Sample != nil {
				res.Samples = append(res.Samples, it.out.Sample)
			}
			if it.out.Sig == nil {
				continue
			}
			if kf := core.IsKnown(known, *it.out.Sig); kf != nil {
				res.KnownSeen.Inc(kf.What)
				res.Suppressed++
				continue
			}
			if res.ReplayPath != "" {
				res.Violations++
				continue
			}
			if os.Getenv("VERIF_ALL") != "" {
				// triage mode (never used by registered commands): list every distinct signature
				k := it.out.Sig.String()
				if !res.Scheds["sig:"+k] {
					res.Scheds["sig:"+k] = true
					fmt.Printf("CANDIDATE %s\n    observed: %s\n", k, strings.ReplaceAll(tailStr(it.out.Observed, 500), "\n", "\n      "))
				}
				res.Violations++
				continue
			}
			// candidate: must reproduce from its case data in a fresh directory
			again := cp.Eval(it.cs, fmt.Sprintf("repro%d", start+i))
			res.Evals += again.Runs
			if again.Trouble != "" {
				core.Troublef("%s case %d (reproduction): %s", c.Prop, start+i, again.Trouble)
			}
			if again.Sig == nil || *again.Sig != *it.out.Sig {
				res.Unrepro++
				fmt.Fprintf(os.Stderr, "note: candidate %s did not reproduce (case %d); counted as unreproduced\n", it.out.Sig, start+i)
				continue
			}
			res.Violations++
			best := it.cs
			note := ""
			sig := *it.out.Sig
			if cp.Shrink != nil {
				fails := func(cand T) bool {
					o := cp.Eval(cand, "min")
					res.Evals += o.Runs
					return o.Sig != nil && *o.Sig == sig
				}
				best, note = cp.Shrink(it.cs, fails, time.Now().Add(120*time.Second))
			}
			final := cp.Eval(best, "final")
			if final.Sig == nil || *final.Sig != sig {
				best, final = it.cs, again
				note += " (minimised case did not re-fail; original reported)"
			}
			b, _ := json.Marshal(best)
			rp := &core.Replay{Engine: cp.Engine, Signature: sig, Case: b, Expected: final.Expected, Observed: final.Observed, Minimised: note, Mode: "exact"}
			res.ReplayPath = c.WriteReplay(rp)
			f := final
			res.First = &f
		}
		if res.ReplayPath != "" {
			break
		}
	}
	if os.Getenv("VERIF_ALL") != "" && res.Violations > 0 {
		fmt.Printf("triage mode: %d candidate violations (not reproduced, not minimised)\n", res.Violations)
		core.Exit(core.ExitViolation)
	}
	return res
}

// Finish writes evidence, replays known findings and prints the verdict lines.
func (res *CampaignResult) Finish(c *core.Ctx, level string, cov map[string]any, assumptions []string, summary string) int {
	cov["evaluations"] = res.Evals
	cov["distinct_nontrivial"] = len(res.Distinct)
	cov["samples"] = res.Samples
	cov["cases"] = res.Cases
	cov["distinct_schedules"] = len(res.Scheds)
	cov["counters"] = res.Tags.Map()
	if _, ok := cov["faults_fired"]; !ok {
		ff := map[string]int{}
		for k, v := range res.Tags.Map() {
			for _, pre := range []string{"fault:", "stage-fault-fired:", "http-fired:", "init-on:", "tree:dirty", "avail:", "probe:unmatched-call", "probe:task-blocked-on-lock", "probe:preempted", "probe:existing_path_refused"} {
				if strings.HasPrefix(k, pre) {
					ff[k] = v
				}
			}
		}
		cov["faults_fired"] = ff
	}
	cov["seed_note"] = "every choice of this run derives from the one seed in the top-level 'seed' field (VERIF_SEED, or the fixed per-(property, tier) default)"
	cov["known_findings_seen"] = res.KnownSeen.Map()
	cov["unreproduced"] = res.Unrepro
	cov["discarded"] = res.Discarded
	cov["inconclusive"] = res.Inconcl
	cov["budget_ended_early"] = res.BudgetEnded
	if res.BudgetEnded {
		fmt.Printf("NOTE: the wall-clock watchdog ended the campaign after %d cases (a loaded machine explores less; nothing is reported for cases that did not run)\n", res.Cases)
	}
	if res.Steps > 0 {
		cov["simulated_steps"] = res.Steps
	}
	if _, ok := cov["exhaustive"]; !ok {
		cov["exhaustive"] = false
	}
	writeSummary(c, res)
	if res.ReplayPath != "" {
		c.WriteEvidence(level, cov, assumptions, res.Violations)
		fmt.Printf("VIOLATION property=%s replay=%s\n", c.Prop, res.ReplayPath)
		fmt.Printf("  clause: %s\n  expected: %s\n  observed: %s\n", res.First.Sig, res.First.Expected, res.First.Observed)
		return core.ExitViolation
	}
	rc := replayKnown(c, c.LoadKnown())
	v := 0
	if rc != core.ExitOK {
		v = 1
	}
	c.WriteEvidence(level, cov, assumptions, v)
	fmt.Printf("%s %s: %d cases, %d evaluations, %d distinct non-trivial, %d schedules, %d suppressed known, %d unreproduced — %s\n",
		c.Prop, c.Tier, res.Cases, res.Evals, len(res.Distinct), len(res.Scheds), res.Suppressed, res.Unrepro, summary)
	return rc
}

// writeSummary dumps what a run explored in a canonical form (selftest: two runs with different
// worker counts / GOMAXPROCS must produce identical summaries).
func writeSummary(c *core.Ctx, res *CampaignResult) {
	p := os.Getenv("VERIF_SUMMARY")
	if p == "" {
		return
	}
	tags := res.Tags.Map()
	delete(tags, "budget-ended-early")
	sum := map[string]any{"property": c.Prop, "seed": c.Seed, "cases": res.Cases, "tags": tags, "distinct": core.HashStr(sortedSet(res.Distinct)...), "n_distinct": len(res.Distinct),
		"schedules": core.HashStr(sortedSet(res.Scheds)...), "violation": res.ReplayPath != "", "suppressed": res.Suppressed, "unreproduced": res.Unrepro, "discarded": res.Discarded}
	b, _ := json.MarshalIndent(sum, "", " ")
	os.WriteFile(p, b, 0o644)
}

func tailStr(s string, n int) string {
	if len(s) > n {
		return s[:n] + "…"
	}
	return s
}

// shrinkTreeFiles drops files of a tree one at a time while the case keeps failing.
func shrinkTreeFiles(t world.Tree, keep func(path string) bool, fails func(world.Tree) bool, deadline time.Time, maxTries int) (world.Tree, int) {
	best := t
	tries := 0
	paths := core.SortedKeys(best.Files)
	// larger files first: sources of other packages go quickly
	sort.SliceStable(paths, func(i, j int) bool { return len(best.Files[paths[i]]) > len(best.Files[paths[j]]) })
	for _, p := range paths {
		if time.Now().After(deadline) || tries >= maxTries {
			break
		}
		if keep != nil && keep(p) {
			continue
		}
		cand := best.Clone()
		delete(cand.Files, p)
		tries++
		if fails(cand) {
			best = cand
		}
	}
	return best, tries
}

func keepCore(p string) bool {
	return p == "go.mod" || p == "go.sum" || strings.HasSuffix(p, ".mockery.yml") || strings.HasSuffix(p, ".mockery.yaml")
}

func registerReplayer[T any](prop string, prep func(c *core.Ctx), eval func(c *core.Ctx, cs T, id string) Outcome) {
	Preparers[prop] = prep
	Replayers[prop] = func(c *core.Ctx, rp *core.Replay) (bool, string) {
		var cs T
		if err := json.Unmarshal(rp.Case, &cs); err != nil {
			core.Troublef("replay case: %v", err)
		}
		o := eval(c, cs, "replay")
		if o.Trouble != "" {
			core.Troublef("%s", o.Trouble)
		}
		if o.Sig != nil {
			return true, fmt.Sprintf("%s\n  expected: %s\n  observed: %s", o.Sig, o.Expected, o.Observed)
		}
		return false, ""
	}
}
