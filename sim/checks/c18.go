package checks

import (
	"fmt"
	"os"
	"path/filepath"
	"reflect"
	"strings"
	"time"

	"gopkg.in/yaml.v3"

	"verif/sim/core"
	"verif/sim/world"
)

// ---------------------------------------------------------------------------------------------
// C18 — `mockery init` bootstraps safely and its output round-trips.
//
// Histories of operations over one project tree: init (any --config target, any package
// string), showconfig, run, and harness mutations of the config path. A tree model says after
// every operation what may have changed.

type c18Op struct {
	Kind      string `json:"kind"`                 // init | showconfig | run | mutate | defaults
	Pkg       string `json:"pkg,omitempty"`        // init: the argument string
	Config    string `json:"config,omitempty"`     // --config target ("" = default .mockery.yml); may contain {{ROOT}}
	Bytes     []byte `json:"bytes,omitempty"`      // mutate: new content
	Delete    bool   `json:"delete,omitempty"`     // mutate: remove the file
	FlagFirst bool   `json:"flag_first,omitempty"` // `mockery --config X init P` instead of `mockery init --config X P`
	Cwd       string `json:"cwd,omitempty"`        // directory (relative to the root) the command runs in
	Obstacle  string `json:"obstacle,omitempty"`   // mutate: dir | symlink | dangling-symlink at the target
	// Env: MOCKERY_* settings exported while this command runs (init: what the file states are
	// the defaults, not what the environment of the moment says)
	Env map[string]string `json:"env,omitempty"`
}

var c18EnvPool = [][2]string{{"MOCKERY_LOG_LEVEL", "debug"}, {"MOCKERY_DIR", "envmocks"}, {"MOCKERY_FORCE_FILE_WRITE", "true"}, {"MOCKERY_FORMATTER", "gofmt"},
	{"MOCKERY_PKGNAME", "envpkg"}, {"MOCKERY_ALL", "false"}, {"MOCKERY_TEMPLATE", "matryer"}, {"MOCKERY_FILENAME", "env_mocks.go"}, {"MOCKERY_STRUCTNAME", "Env{{.InterfaceName}}"}}

func c18Env(r *core.Rng) map[string]string {
	env := map[string]string{}
	for k := r.Range(1, 2); k > 0; k-- {
		kv := core.Pick(r, c18EnvPool)
		env[kv[0]] = kv[1]
	}
	return env
}

type c18Case struct {
	Tree world.Tree          `json:"tree"`
	Ops  []c18Op             `json:"ops"`
	Seed uint64              `json:"seed"`
	Real map[string][]string `json:"real"`     // real package path → interface names
	Dirs map[string]string   `json:"pkg_dirs"` // real package path → directory
}

var c18Weird = []string{
	"Example.com/W/UPPER",
	"pkg: v2", "pkg #tools", "*star", "&anchor/pkg", "!tag/pkg", "{flow}", "[seq]", "- dash", "yes", "no", "null", "~", "1e3", "0x1F", "012",
	"true", "trailing space ", " leading", "quo\"te", "single'quote", "back\\slash", "ünï/çödé/包", "a|b", "a.b.c/d", "key: {x: [1,2]}",
	"multi\nline", "tab\there", "@at", "`tick", "%percent", ">fold", "|lit", "?query", ",comma", "#hash", "", "example.com/w/…",
	// what people paste from `go get` / `go install`: the argument is a package string like any other
	"example.com/w/pkg@v1.4.0", "weird: path #1@v2", "example.com/tools/cmd@latest", "pkg@v2.0.0-rc.1+build", "a@b", "@latest", "pkg@", "gopkg.in/yaml.v3", "pkg/v2", "pkg/...", "./rel/pkg", "../up", "C:\\win\\path", "pkg?x=1&y=2", "pkg;rm", "$HOME/pkg", "${X}", "%s%d", "{{.X}}",
}

var c18Cwds = []string{"conf/odd[v2]", "conf/st*r?", "conf/sp ace", "conf/nested"}

func c18Gen(r *core.Rng, seed uint64) c18Case {
	o := world.GenOpts{MinPkgs: 2, MaxPkgs: 3, MaxIfacesPerPkg: 3, AllowXRef: true}
	pkgs := world.GenPackages(r, o)
	p := &world.Project{Module: c09Mod, Pkgs: pkgs, Aux: map[string]string{}, NoConfig: true}
	p.Aux["docs/readme.txt"] = "bystander\n"
	p.Dirs = append([]string{"conf"}, c18Cwds...)
	cs := c18Case{Tree: p.Tree(), Seed: seed, Real: map[string][]string{}, Dirs: map[string]string{}}
	for _, q := range pkgs {
		cs.Real[c09Mod+"/"+q.Dir] = q.AllIfaces(nil)
		cs.Dirs[c09Mod+"/"+q.Dir] = q.Dir
	}
	reals := core.SortedKeys(cs.Real)
	target := core.Pick(r, []string{"", "", "alt.yml", "conf/nested/.mockery.yml", "conf/my config.yaml", world.RootPlaceholder + "/conf/abs.yml", "missing-dir/sub/.mockery.yml", "./conf/../conf/dotted.yml", "conf/", "conf/nested"})
	pick := func() string {
		if r.Chance(1, 2) {
			return core.Pick(r, reals)
		}
		return core.Pick(r, c18Weird)
	}
	// initial state of the target
	switch r.Intn(5) {
	case 0, 1: // absent
	case 2:
		cs.Ops = append(cs.Ops, c18Op{Kind: "mutate", Config: target, Bytes: []byte{}})
	case 3:
		cs.Ops = append(cs.Ops, c18Op{Kind: "mutate", Config: target, Bytes: []byte("# my hand-written config\npackages:\n  example.com/w/" + pkgs[0].Dir + ":\n    config:\n      all: true\n")})
	case 4:
		cs.Ops = append(cs.Ops, c18Op{Kind: "mutate", Config: target, Bytes: []byte{0x00, 0xff, 0xfe, 'b', 'i', 'n', 0x0a, 0x80}})
	}
	if r.Chance(1, 6) {
		cs.Ops = append(cs.Ops, c18Op{Kind: "mutate", Config: target, Obstacle: core.Pick(r, []string{"dir", "symlink", "dangling-symlink"})})
	}
	// some histories run from a sub-directory: a relative target is then relative to it
	cwd := ""
	if r.Chance(1, 4) && !strings.HasPrefix(target, "missing-dir") {
		// a package directory, or a directory whose name means something to glob / shell / YAML
		cwd = core.Pick(r, append([]string{pkgs[0].Dir, pkgs[0].Dir}, c18Cwds...))
	}
	defer func() {
		for i := range cs.Ops {
			cs.Ops[i].Cwd = cwd
		}
	}()
	n := r.Range(2, 5)
	for i := 0; i < n; i++ {
		switch r.Intn(8) {
		case 0, 1, 2:
			cs.Ops = append(cs.Ops, c18Op{Kind: "init", Pkg: pick(), Config: target, FlagFirst: r.Bool()})
			if r.Chance(1, 3) {
				cs.Ops[len(cs.Ops)-1].Env = c18Env(r)
			}
		case 3:
			cs.Ops = append(cs.Ops, c18Op{Kind: "showconfig", Config: target})
		case 4:
			cs.Ops = append(cs.Ops, c18Op{Kind: "run", Config: target})
		case 5:
			cs.Ops = append(cs.Ops, c18Op{Kind: "defaults", Config: target})
		case 6:
			cs.Ops = append(cs.Ops, c18Op{Kind: "mutate", Config: target, Delete: true})
		case 7:
			cs.Ops = append(cs.Ops, c18Op{Kind: "mutate", Config: target, Bytes: []byte(core.Pick(r, []string{"", "garbage: [", "packages: {}\n", "\x00\x01"}))})
		}
		// after a successful-looking init, usually look at the result
		if last := cs.Ops[len(cs.Ops)-1]; last.Kind == "init" && r.Chance(3, 4) {
			cs.Ops = append(cs.Ops, c18Op{Kind: core.Pick(r, []string{"showconfig", "run", "defaults", "init"}), Config: target, Pkg: pick()})
		}
	}
	return cs
}

func c18ConfigRel(op c18Op) string {
	cfg := op.Config
	if cfg == "" {
		cfg = ".mockery.yml"
	}
	if strings.HasPrefix(cfg, world.RootPlaceholder+"/") {
		return filepath.Clean(strings.TrimPrefix(cfg, world.RootPlaceholder+"/"))
	}
	return filepath.Clean(filepath.Join(op.Cwd, cfg)) // a relative target is relative to the working directory
}

func yamlQuote(s string) string { b, _ := yaml.Marshal(s); return strings.TrimSpace(string(b)) }

func evalC18(c *core.Ctx, cs c18Case, id string) Outcome {
	out := Outcome{}
	base := filepath.Join(c.Scratch, "w", id)
	root := filepath.Join(base, "root")
	defer world.RemoveAll(base)
	if err := cs.Tree.Materialise(root); err != nil {
		out.Trouble = err.Error()
		return out
	}
	r := core.NewRng(cs.Seed)
	// model: which config paths currently hold untouched init output, and for which argument
	written := map[string]string{}
	hasWritten := map[string]bool{}
	var hist []string
	mk := func(i int, clause, trig, exp, obs string) Outcome {
		out.Sig = &core.Signature{Clause: clause, Site: cs.Ops[i].Kind, Trigger: trig}
		out.Expected = exp
		out.Observed = fmt.Sprintf("%s [op %d of history %v]", obs, i, hist)
		return out
	}
	run := func(op c18Op, args ...string) world.StepResult {
		st := world.Step{Args: args, Cwd: op.Cwd, Env: op.Env, Plan: world.Plan(core.Pick(r, []string{"asc", "desc", "random"}), r.Uint64(), 0, 1995+r.Intn(60), 1+r.Intn(30000))}
		out.Runs++
		res := world.Run(c.Bin, root, base, st, 90*time.Second)
		if v := res.OrderVector(); v != "" {
			out.Scheds = append(out.Scheds, v)
		}
		return res
	}
	cfgArgs := func(op c18Op) []string {
		if op.Config == "" {
			return nil
		}
		return []string{"--config", op.Config}
	}
	for i, op := range cs.Ops {
		rel := c18ConfigRel(op)
		full := filepath.Join(root, rel)
		hist = append(hist, op.Kind+"("+strings.TrimSpace(op.Pkg+" "+rel)+")")
		before, err := world.Snap(root)
		if err != nil {
			out.Trouble = err.Error()
			return out
		}
		_, existed := before[rel]
		switch op.Kind {
		case "mutate":
			if op.Delete {
				os.RemoveAll(full)
			} else if op.Obstacle != "" {
				os.RemoveAll(full)
				os.MkdirAll(filepath.Dir(full), 0o755)
				switch op.Obstacle {
				case "dir":
					os.MkdirAll(filepath.Join(full, "inner"), 0o755)
				case "symlink":
					os.WriteFile(filepath.Join(root, "docs", "link-target.yml"), []byte("packages: {}\n"), 0o644)
					os.Symlink(filepath.Join(root, "docs", "link-target.yml"), full)
				case "dangling-symlink":
					os.Symlink(filepath.Join(root, "docs", "does-not-exist.yml"), full)
				}
			} else {
				os.RemoveAll(full)
				os.MkdirAll(filepath.Dir(full), 0o755)
				if err := os.WriteFile(full, op.Bytes, 0o644); err != nil {
					out.Trouble = err.Error()
					return out
				}
			}
			delete(written, rel)
			delete(hasWritten, rel)
			continue
		case "init":
			// "--" ends flag parsing: the argument may begin with a dash
			args := append([]string{"init"}, append(cfgArgs(op), "--", op.Pkg)...)
			if op.FlagFirst {
				args = append(cfgArgs(op), "init", "--", op.Pkg)
			}
			res := run(op, args...)
			if res.TimedOut {
				out.Trouble = "watchdog"
				return out
			}
			after, _ := world.Snap(root)
			diff := world.Diff(before, after)
			state := "absent"
			if existed {
				state = "present:" + before[rel].Kind
			}
			out.Tags = append(out.Tags, "init-on:"+state)
			if len(op.Env) > 0 {
				out.Tags = append(out.Tags, "fault:init-under-MOCKERY-environment")
			}
			if res.Panicked() {
				return mk(i, "init-panic", state, "no panic", tail(res.Stderr, 500))
			}
			if strings.HasSuffix(op.Config, "/") {
				// a path with a trailing slash can only name a directory: no file can be written there
				out.Tags = append(out.Tags, "init-on:directory-path")
				if len(diff) > 0 {
					return mk(i, "init-failed-but-changed-tree", "directory-path", "nothing changes when the target cannot be a file", fmt.Sprint(diff))
				}
				if res.Exit == 0 {
					return mk(i, "init-exit-0-without-file", "directory-path", "failure is reported", "exit 0")
				}
				continue
			}
			if existed {
				if len(diff) > 0 {
					return mk(i, "init-modified-existing-tree", state, "an existing file at the target is never modified (tree unchanged)", fmt.Sprint(diff))
				}
				if res.Exit == 0 {
					return mk(i, "init-exit-0-on-existing", state, "the command reports failure when the target exists", "exit 0")
				}
				continue
			}
			parentExists := false
			if e, ok := before[filepath.Dir(rel)]; (ok && e.Kind == "dir") || filepath.Dir(rel) == "." {
				parentExists = true
			}
			if res.Exit != 0 {
				if len(diff) > 0 {
					return mk(i, "init-failed-but-changed-tree", state, "a failing init leaves the tree unchanged", fmt.Sprint(diff))
				}
				if parentExists {
					return mk(i, "init-fails-on-absent-target", "pkg="+c18Class(op.Pkg, cs), "init writes the file when none exists at the target", fmt.Sprintf("exit %d: %s", res.Exit, tail(res.Stderr, 300)))
				}
				out.Tags = append(out.Tags, "init-missing-parent-refused")
				continue
			}
			// success: exactly the target (and, possibly, missing parent directories) appeared
			for _, d := range diff {
				kind, p, _ := strings.Cut(d, ":")
				if p == rel && kind == "added" && after[p].Kind == "file" {
					continue
				}
				if kind == "added" && after[p].Kind == "dir" && strings.HasPrefix(rel, p+"/") && !parentExists {
					continue
				}
				return mk(i, "init-stray-change", "", "init creates the configuration file and nothing else", d)
			}
			if _, ok := after[rel]; !ok {
				return mk(i, "init-exit-0-without-file", "", "the file is written", "exit 0 but no file at "+rel)
			}
			// mockery has to be able to load the file back: whoever ran init must be able to read
			// it (the checks run as root, for whom permission bits do not count — look at them)
			if m := after[rel].Mode; m&0o400 == 0 {
				return mk(i, "init-output-not-readable-by-its-owner", "", "a configuration file its owner can read (mockery must accept it)", fmt.Sprintf("mode %04o", m))
			}
			written[rel] = op.Pkg
			hasWritten[rel] = true
			// independent parse: exactly one package key, byte-identical to the argument
			b, _ := os.ReadFile(full)
			var doc map[string]any
			if err := yaml.Unmarshal(b, &doc); err != nil {
				return mk(i, "init-output-not-yaml", "pkg="+c18Class(op.Pkg, cs), "the written file is YAML", err.Error())
			}
			pk, _ := doc["packages"].(map[string]any)
			if len(pk) != 1 {
				return mk(i, "init-packages-key-count", "pkg="+c18Class(op.Pkg, cs), "packages has exactly one key", fmt.Sprintf("%d keys: %v", len(pk), pk))
			}
			for k := range pk {
				if k != op.Pkg {
					return mk(i, "init-package-key-differs", "pkg="+c18Class(op.Pkg, cs), fmt.Sprintf("key %q", op.Pkg), fmt.Sprintf("key %q", k))
				}
			}
		case "showconfig", "defaults":
			res := run(op, append([]string{"showconfig"}, cfgArgs(op)...)...)
			after, _ := world.Snap(root)
			if d := world.Diff(before, after); len(d) > 0 {
				return mk(i, "showconfig-changed-tree", "", "showconfig changes nothing", fmt.Sprint(d))
			}
			if !hasWritten[rel] {
				continue // arbitrary content: nothing promised beyond not touching the tree
			}
			arg := written[rel]
			if res.Panicked() {
				return mk(i, "loader-panic-on-init-output", "pkg="+c18Class(arg, cs), "no panic", tail(res.Stderr, 400))
			}
			if res.Exit != 0 {
				return mk(i, "init-output-rejected-by-loader", "pkg="+c18Class(arg, cs), "the file init wrote is accepted by mockery itself", fmt.Sprintf("showconfig exit %d: %s", res.Exit, tail(res.Stderr+res.Stdout, 400)))
			}
			var shown map[string]any
			if err := yaml.Unmarshal([]byte(res.Stdout), &shown); err != nil {
				out.Trouble = "cannot parse showconfig output: " + err.Error()
				return out
			}
			spk, _ := shown["packages"].(map[string]any)
			if len(spk) != 1 {
				return mk(i, "round-trip-package-count", "pkg="+c18Class(arg, cs), "one package after loading back", fmt.Sprintf("%d: %v", len(spk), core.SortedKeys(spk)))
			}
			for k := range spk {
				if k != arg {
					return mk(i, "round-trip-package-key-differs", "pkg="+c18Class(arg, cs), fmt.Sprintf("key %q loads back unchanged", arg), fmt.Sprintf("loaded key %q", k))
				}
			}
			out.Tags = append(out.Tags, "round-trip-ok:"+c18Class(arg, cs))
			if op.Kind != "defaults" {
				continue
			}
			// differential: the same package entry with no other setting must resolve to the
			// same configuration (i.e. what init states are the loader's defaults)
			orig, _ := os.ReadFile(full)
			minimal := "packages:\n  " + yamlQuote(arg) + ":\n    config:\n      all: true\n"
			os.WriteFile(full, []byte(minimal), 0o644)
			res2 := run(op, append([]string{"showconfig"}, cfgArgs(op)...)...)
			os.WriteFile(full, orig, 0o644)
			if res2.Exit != 0 {
				out.Tags = append(out.Tags, "defaults-reference-rejected")
				continue
			}
			var shown2 map[string]any
			if err := yaml.Unmarshal([]byte(res2.Stdout), &shown2); err != nil {
				out.Trouble = "cannot parse showconfig output: " + err.Error()
				return out
			}
			if !reflect.DeepEqual(shown, shown2) {
				return mk(i, "init-states-non-default-values", "", "the settings init writes equal the loader's defaults", c18MapDiff(shown, shown2))
			}
			out.Tags = append(out.Tags, "defaults-equal")
		case "run":
			res := run(op, cfgArgs(op)...)
			after, _ := world.Snap(root)
			if !hasWritten[rel] {
				continue
			}
			arg := written[rel]
			ifaces, real := cs.Real[arg]
			if !real {
				if res.Panicked() {
					return mk(i, "run-panic-on-init-output", "pkg="+c18Class(arg, cs), "no panic", tail(res.Stderr, 400))
				}
				continue
			}
			if _, had := before[cs.Dirs[arg]+"/mocks_test.go"]; had {
				// an earlier run of this history already wrote the default output file and
				// force-file-write defaults to false: refusing is C10's business, not judged here
				out.Tags = append(out.Tags, "rerun-over-existing-output-not-judged")
				continue
			}
			if res.Exit != 0 {
				return mk(i, "run-after-init-fails", "", "a plain run over init's output generates the mocks", fmt.Sprintf("exit %d: %s", res.Exit, tail(res.Stderr, 500)))
			}
			outFile := cs.Dirs[arg] + "/mocks_test.go"
			exp := map[string][]string{outFile: nil}
			for _, n := range ifaces {
				exp[outFile] = append(exp[outFile], "Mock"+n)
			}
			// where the mocks go is a default and not part of this property: look for them anywhere new
			found := map[string]bool{}
			for _, d := range world.Diff(before, after) {
				_, p, _ := strings.Cut(d, ":")
				if b, err := os.ReadFile(filepath.Join(root, p)); err == nil {
					for _, m := range structDeclRe.FindAllStringSubmatch(string(b), -1) {
						found[m[1]] = true
					}
				}
			}
			for _, n := range ifaces {
				if !found["Mock"+n] {
					return mk(i, "run-after-init-misses-interface", "", "mocks for all interfaces of the named package", fmt.Sprintf("no mock struct for %s among files changed by the run (%v)", n, world.Diff(before, after)))
				}
			}
			out.Tags = append(out.Tags, "run-after-init-ok")
		}
	}
	out.Key = core.HashStr(strings.Join(hist, ";"))
	out.Nontrivial = len(hasWritten) > 0 || strings.Contains(strings.Join(out.Tags, " "), "init-on:present")
	return out
}

func c18Class(arg string, cs c18Case) string {
	if _, ok := cs.Real[arg]; ok {
		return "real-package"
	}
	return fmt.Sprintf("%q", arg)
}

func c18MapDiff(a, b map[string]any) string {
	var d []string
	var walk func(path string, x, y any)
	walk = func(path string, x, y any) {
		mx, okx := x.(map[string]any)
		my, oky := y.(map[string]any)
		if okx && oky {
			keys := map[string]bool{}
			for k := range mx {
				keys[k] = true
			}
			for k := range my {
				keys[k] = true
			}
			for _, k := range core.SortedKeys(keys) {
				walk(path+"/"+k, mx[k], my[k])
			}
			return
		}
		if !reflect.DeepEqual(x, y) {
			d = append(d, fmt.Sprintf("%s: init-written=%v loader-default=%v", path, x, y))
		}
	}
	walk("", a, b)
	return strings.Join(d, "; ")
}

func RunC18(c *core.Ctx) int {
	c.PrepareRepo(true)
	n := 150 + 2*len(c18Weird) + len(c18Cwds)
	budget := 20 * time.Minute // quick: the case count is the contract, the clock only a watchdog
	if c.Tier == "thorough" {
		n = 3000 + 2*len(c18Weird) + len(c18Cwds)
		budget = 28 * time.Minute
	}
	cp := &Campaign[c18Case]{C: c, Engine: "W", N: n, Budget: budget,
		Gen: func(i int) c18Case {
			r := core.Stream(c.Seed, "c18", i)
			cs := c18Gen(r, r.Uint64())
			if i < 2*len(c18Weird) {
				// directed part: every package string is initialised and loaded back at least
				// twice (default target and a random one), then the random histories follow
				w := c18Weird[i%len(c18Weird)]
				tgt := ""
				if i >= len(c18Weird) {
					tgt = core.Pick(r, []string{"alt.yml", "conf/nested/.mockery.yml", "conf/my config.yaml", world.RootPlaceholder + "/conf/abs.yml"})
				}
				var env map[string]string
				if i%2 == 1 {
					env = c18Env(r)
				}
				cs.Ops = []c18Op{{Kind: "init", Pkg: w, Config: tgt, FlagFirst: r.Bool(), Env: env}, {Kind: "defaults", Config: tgt}, {Kind: "run", Config: tgt}, {Kind: "init", Pkg: core.Pick(r, c18Weird), Config: tgt}, {Kind: "showconfig", Config: tgt}}
			} else if k := i - 2*len(c18Weird); k < len(c18Cwds) {
				// directed part: init for a real package and a plain run, both from a directory whose
				// name means something to glob, the shell or YAML (the configuration is discovered, not named)
				real := core.SortedKeys(cs.Real)[0]
				cs.Ops = []c18Op{{Kind: "init", Pkg: real, Cwd: c18Cwds[k]}, {Kind: "showconfig", Cwd: c18Cwds[k]}, {Kind: "run", Cwd: c18Cwds[k]}}
			}
			return cs
		},
		Eval: func(cs c18Case, id string) Outcome {
			o := evalC18(c, cs, id)
			if o.Sample == nil {
				var ops []string
				for _, op := range cs.Ops {
					ops = append(ops, fmt.Sprintf("%s pkg=%q config=%q", op.Kind, op.Pkg, op.Config))
				}
				o.Sample = map[string]any{"ops": ops, "real_packages": cs.Real}
			}
			return o
		},
		Shrink: func(cs c18Case, fails func(c18Case) bool, deadline time.Time) (c18Case, string) {
			n0 := len(cs.Ops)
			for i := 0; i < len(cs.Ops) && time.Now().Before(deadline); {
				cand := cs
				cand.Ops = append(append([]c18Op(nil), cs.Ops[:i]...), cs.Ops[i+1:]...)
				if len(cand.Ops) > 0 && fails(cand) {
					cs = cand
				} else {
					i++
				}
			}
			return cs, fmt.Sprintf("ops %d→%d", n0, len(cs.Ops))
		},
	}
	res := cp.Run()
	cov := map[string]any{
		"rule":            "one evaluation = one child run of the instrumented mockery (init / showconfig / plain run) inside a seeded history of 2–10 operations on one project tree; the harness mutates or deletes the config path between operations; a tree snapshot is taken around every operation; non-trivial = some init wrote a file or hit an existing target; distinct = hash of the operation history",
		"config_targets":  []string{"default", "relative", "nested directory", "name with a space", "absolute", "missing parent directory", "dotted relative"},
		"initial_states":  []string{"absent", "empty file", "hand-written YAML", "binary bytes"},
		"package_strings": len(c18Weird),
		"components":      map[string]any{"real": []string{"mockery CLI", "yaml.v3 encoder", "koanf loader", "go list", "tmpfs"}, "instrumented": []string{"map-range sites", "time.Now", "os.Getpid"}, "stub": []string{}},
	}
	return res.Finish(c, "exploration", cov, []string{
		"'states the documented defaults' is checked differentially against the loader's own defaults (showconfig over a config holding only the package entry), not against the documentation table",
		"what init does when the target's parent directory does not exist is not constrained beyond all-or-nothing",
	}, "tree model held")
}

func init() {
	Runners["C18"] = RunC18
	registerReplayer[c18Case]("C18", func(c *core.Ctx) { c.PrepareRepo(true) }, evalC18)
}
