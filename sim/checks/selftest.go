package checks

import (
	"fmt"
	"os"
	"path/filepath"
	"strings"
	"time"

	"verif/sim/core"
	"verif/sim/world"
)

// SelfTest is the determinism proof (not a registered check; run by hand and after every new
// seam or fault kind):
//
//	A. engine W: the same (world, plan) executed by children with GOMAXPROCS 1, 4 and 16 must
//	   give identical exit status, result tree, stderr/stdout and event log;
//	B. every property's quick check run twice — 16 workers vs 5 workers with GOMAXPROCS=3 — must
//	   explore exactly the same cases with the same outcomes (canonical summaries are diffed).
func SelfTest(c *core.Ctx, args []string) int {
	props := []string{"C03", "C04", "C05", "C06", "C09", "C10", "C12", "C15", "C18", "C20"}
	if len(args) > 0 {
		props = args
	}
	bad := 0
	// ---- A
	c.PrepareRepo(true)
	nW := 40
	type resA struct{ diff string }
	resA_ := core.ParallelMap(c.Jobs, nW, func(i int) resA {
		r := core.Stream(c.Seed, "selftest-world", i)
		proj, _, _ := genC06World(r)
		tree := proj.Tree()
		plan := world.Plan(core.Pick(r, []string{"asc", "desc", "random", "rotate"}), r.Uint64(), 2, 2000+i, 100+i)
		var ref world.StepResult
		var refDigest string
		for j, gmp := range []string{"1", "4", "16", "2"} {
			base := filepath.Join(c.Scratch, "st", fmt.Sprintf("w%d", i))
			root := filepath.Join(base, "root")
			world.RemoveAll(base)
			if err := tree.Materialise(root); err != nil {
				return resA{err.Error()}
			}
			res := world.Run(c.Bin, root, base, world.Step{Plan: plan, Env: map[string]string{"GOMAXPROCS": gmp}}, 90*time.Second)
			snap, _ := world.Snap(root)
			if j == 0 {
				ref, refDigest = res, snap.Digest()
				continue
			}
			switch {
			case res.Exit != ref.Exit:
				return resA{fmt.Sprintf("world %d: exit %d vs %d (GOMAXPROCS=%s)", i, ref.Exit, res.Exit, gmp)}
			case snap.Digest() != refDigest:
				return resA{fmt.Sprintf("world %d: result tree differs (GOMAXPROCS=%s)", i, gmp)}
			case res.EvRaw != ref.EvRaw:
				return resA{fmt.Sprintf("world %d: event log differs (GOMAXPROCS=%s)", i, gmp)}
			case res.Stderr != ref.Stderr || res.Stdout != ref.Stdout:
				return resA{fmt.Sprintf("world %d: output differs (GOMAXPROCS=%s)", i, gmp)}
			}
			world.RemoveAll(base)
		}
		return resA{}
	})
	for _, r := range resA_ {
		if r.diff != "" {
			fmt.Println("SELFTEST DIVERGENCE (A):", r.diff)
			bad++
		}
	}
	fmt.Printf("selftest A: %d worlds × 4 executions of the same plan (GOMAXPROCS 1/4/16/2): %d divergences\n", nW, bad)
	// ---- C: the seam does not change behaviour — an un-instrumented build of the same tree
	// (Go's own map order, real clock and pid) must produce the same result tree as the
	// instrumented one under the asc schedule
	plainDir := filepath.Join(c.Scratch, "plain-repo")
	plainBin := filepath.Join(c.Scratch, "bin", "mockery-plain")
	if r := core.RunCmd("", os.Environ(), 2*time.Minute, "rsync", "-a", "--exclude", ".git", c.RepoDir+"/", plainDir+"/"); r.Exit != 0 {
		core.Troublef("rsync: %s", r.Stderr)
	}
	if r := core.RunCmd(plainDir, core.GoEnv(), 10*time.Minute, "go", "build", "-trimpath", "-o", plainBin, "."); r.Exit != 0 {
		core.Troublef("building the un-instrumented mockery failed: %s", r.Stderr)
	}
	badC := 0
	resC := core.ParallelMap(c.Jobs, nW, func(i int) string {
		r := core.Stream(c.Seed, "selftest-world", i)
		proj, _, _ := genC06World(r)
		tree := proj.Tree()
		var digests [2]string
		var exits [2]int
		for j, bin := range []string{c.Bin, plainBin} {
			base := filepath.Join(c.Scratch, "stc", fmt.Sprintf("w%d", i))
			root := filepath.Join(base, "root")
			world.RemoveAll(base)
			if err := tree.Materialise(root); err != nil {
				return err.Error()
			}
			res := world.Run(bin, root, base, world.Step{Plan: world.Plan("asc", 1, 0, 2000+i, 100+i)}, 90*time.Second)
			snap, _ := world.Snap(root)
			digests[j], exits[j] = snap.Digest(), res.Exit
			world.RemoveAll(base)
		}
		if exits[0] != exits[1] || (exits[0] == 0 && digests[0] != digests[1]) {
			return fmt.Sprintf("world %d: instrumented exit %d / plain exit %d, trees equal: %v", i, exits[0], exits[1], digests[0] == digests[1])
		}
		return ""
	})
	for _, d := range resC {
		if d != "" {
			fmt.Println("SELFTEST DIVERGENCE (C):", d)
			badC++
		}
	}
	bad += badC
	fmt.Printf("selftest C: %d worlds, instrumented (asc) vs un-instrumented build (native order, real clock): %d divergences\n", nW, badC)
	// ---- D: the simulator's own oracles (scheduler replay, RWMutex semantics, race detector true
	// positives/negatives, deadlock detection) and the checks' reference models (semver precedence,
	// schema evaluator)
	if r := core.RunCmd(c.VerifDir, mGoEnv(), 10*time.Minute, "go", "test", "-count=1", "./sim/msim/simsync/", "./sim/checks/"); r.Exit != 0 {
		bad++
		fmt.Printf("SELFTEST: oracle self-checks failed: %s\n", tail(r.Stdout+r.Stderr, 1500))
	} else {
		fmt.Println("selftest D: simulator and reference-model self-checks pass")
	}
	// ---- B
	exe, _ := os.Executable()
	for _, p := range props {
		var sums [2]string
		for k, cfg := range [][]string{{"VERIF_JOBS=16"}, {"VERIF_JOBS=5", "GOMAXPROCS=3"}} {
			sp := filepath.Join(c.Scratch, fmt.Sprintf("summary-%s-%d.json", p, k))
			env := append(os.Environ(), cfg...)
			env = append(env, "VERIF_SUMMARY="+sp, "VERIF_DIR="+c.VerifDir, fmt.Sprintf("VERIF_SEED=%d", int64(c.Seed&0x7fffffffffffff)), "VERIF_NO_EVIDENCE=1")
			r := core.RunCmd(c.VerifDir, env, 40*time.Minute, exe, p, "quick")
			if r.Exit != 0 {
				fmt.Printf("SELFTEST: %s quick exited %d under %v: %s\n", p, r.Exit, cfg, tail(r.Stdout+r.Stderr, 500))
				bad++
			}
			b, _ := os.ReadFile(sp)
			sums[k] = string(b)
		}
		if sums[0] == "" || sums[0] != sums[1] {
			bad++
			fmt.Printf("SELFTEST DIVERGENCE (B): %s explored different things with 16 and with 5 workers\n--- 16 workers\n%s\n--- 5 workers, GOMAXPROCS=3\n%s\n", p, tailStr(sums[0], 1500), tailStr(sums[1], 1500))
		} else {
			fmt.Printf("selftest B: %s identical summaries (%d bytes) under 16 workers and 5 workers/GOMAXPROCS=3\n", p, len(sums[0]))
		}
	}
	if bad > 0 {
		fmt.Printf("selftest: %d divergences\n", bad)
		return core.ExitTrouble
	}
	fmt.Println("selftest: deterministic")
	_ = strings.Join
	return core.ExitOK
}
