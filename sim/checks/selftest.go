package checks

import (
	"fmt"

	"verif/sim/core"
)

// SelfTest is filled in per engine (determinism proof).
func SelfTest(c *core.Ctx, args []string) int {
	fmt.Println("selftest: not yet implemented")
	return core.ExitTrouble
}
