#!/bin/bash
# setup_cmd: builds the framework binaries from sources on disk, offline.
set -eu
cd "$(dirname "$0")"
export GOPROXY=off GOFLAGS=-mod=mod GOWORK=off GONOSUMDB='*' GONOSUMCHECK=1 GOSUMDB=off
unset GOTOOLCHAIN || true
mkdir -p bin
go build -o bin/ ./cmd/... 
# warm the build cache for the instrumented mockery (paid once, outside the checks)
if [ "${VERIF_SETUP_WARM:-1}" = 1 ] && [ -d "${VERIF_REPO:-/repo}" ]; then
  ( cd "${VERIF_REPO:-/repo}" && env -u GOFLAGS -u GOWORK -u GOSUMDB GOPROXY=off GOFLAGS= go build -trimpath -tags verif -o /dev/null . ) || true
  ( cd "${VERIF_REPO:-/repo}/tools" && env -u GOFLAGS -u GOWORK -u GOSUMDB GOPROXY=off GOFLAGS= go build -trimpath -o /dev/null . ) || true
fi
echo "setup ok"
