// verif-instr rewrites a scratch copy of vektra/mockery so that every source of
// nondeterminism inside the CLI sits behind the simrt seam:
//
//   - every `for … := range m` with m of map type  →  iteration in the order simrt.Order decides
//   - time.Now / os.Getpid                         →  simrt.Now / simrt.Getpid
//   - http.DefaultTransport                        →  scripted transport (installed by an added init())
//
// The rewrite is textual and keeps every statement on its original line, so diagnostics and
// site labels refer to the lines of the user's tree. It is driven by go/types, not by line
// numbers, so it follows edits to the repository. Exit status 2 = cannot instrument.
package main

import (
	"encoding/json"
	"flag"
	"fmt"
	"go/ast"
	"go/token"
	"go/types"
	"os"
	"path/filepath"
	"sort"
	"strings"

	"golang.org/x/tools/go/packages"
)

type edit struct {
	start, end int
	text       string
}

type report struct {
	RangeSites []string `json:"range_sites"`
	ClockSites []string `json:"clock_sites"`
	PidSites   []string `json:"pid_sites"`
	Unseamed   []string `json:"unseamed"`
	Packages   []string `json:"packages"`
}

const simrtImport = "github.com/vektra/mockery/v3/internal/verifsim/simrt"

func fatal(format string, a ...any) {
	fmt.Fprintf(os.Stderr, "verif-instr: "+format+"\n", a...)
	os.Exit(2)
}

func pure(e ast.Expr) bool {
	switch x := e.(type) {
	case *ast.Ident:
		return true
	case *ast.SelectorExpr:
		return pure(x.X)
	case *ast.IndexExpr:
		return pure(x.X) && pure(x.Index)
	case *ast.ParenExpr:
		return pure(x.X)
	case *ast.StarExpr:
		return pure(x.X)
	case *ast.BasicLit:
		return true
	}
	return false
}

func main() {
	dir := flag.String("dir", "", "scratch copy of the repository (rewritten in place)")
	simrtSrc := flag.String("simrt", "", "path to simrt.go to copy in")
	reportPath := flag.String("report", "", "where to write the JSON report")
	flag.Parse()
	if *dir == "" || *simrtSrc == "" {
		fatal("usage: verif-instr -dir <scratch repo> -simrt <simrt.go> [-report f]")
	}
	abs, err := filepath.Abs(*dir)
	if err != nil {
		fatal("%v", err)
	}
	env := []string{}
	for _, kv := range os.Environ() {
		if strings.HasPrefix(kv, "GOFLAGS=") || strings.HasPrefix(kv, "GOWORK=") || strings.HasPrefix(kv, "GOPROXY=") ||
			strings.HasPrefix(kv, "GOTOOLCHAIN=") || strings.HasPrefix(kv, "GOSUMDB=") || strings.HasPrefix(kv, "GONOSUMDB=") || strings.HasPrefix(kv, "GONOSUMCHECK=") {
			continue
		}
		env = append(env, kv)
	}
	env = append(env, "GOPROXY=off", "GOFLAGS=")

	listCfg := &packages.Config{Mode: packages.NeedName | packages.NeedFiles, Dir: abs, Env: env}
	all, err := packages.Load(listCfg, "./...")
	if err != nil {
		fatal("listing packages: %v", err)
	}
	var patterns []string
	for _, p := range all {
		if strings.Contains(p.PkgPath, "/internal/fixtures") || strings.Contains(p.PkgPath, "/e2e") ||
			strings.Contains(p.PkgPath, "/internal/verifsim") {
			continue
		}
		if len(p.GoFiles) == 0 {
			continue
		}
		patterns = append(patterns, p.PkgPath)
	}
	sort.Strings(patterns)
	cfg := &packages.Config{
		Mode: packages.NeedName | packages.NeedFiles | packages.NeedCompiledGoFiles | packages.NeedSyntax | packages.NeedTypes | packages.NeedTypesInfo | packages.NeedImports | packages.NeedDeps,
		Dir:  abs, Env: env,
	}
	pkgs, err := packages.Load(cfg, patterns...)
	if err != nil {
		fatal("loading packages: %v", err)
	}
	rep := report{Packages: patterns}
	nerr := 0
	for _, p := range pkgs {
		for _, e := range p.Errors {
			fmt.Fprintf(os.Stderr, "verif-instr: %s: %v\n", p.PkgPath, e)
			nerr++
		}
	}
	if nerr > 0 {
		fatal("the tree does not type-check (%d errors)", nerr)
	}
	counter := 0
	for _, p := range pkgs {
		for i, f := range p.Syntax {
			fname := p.CompiledGoFiles[i]
			if strings.HasSuffix(fname, "_test.go") || !strings.HasPrefix(fname, abs) {
				continue
			}
			rel, _ := filepath.Rel(abs, fname)
			src, err := os.ReadFile(fname)
			if err != nil {
				fatal("%v", err)
			}
			var edits []edit
			tf := p.Fset.File(f.Pos())
			off := func(pos token.Pos) int { return tf.Offset(pos) }
			needTimeKeep := ""
			needOsKeep := ""
			labeled := map[ast.Stmt]bool{}
			ast.Inspect(f, func(n ast.Node) bool {
				if l, ok := n.(*ast.LabeledStmt); ok {
					labeled[l.Stmt] = true
				}
				return true
			})
			ast.Inspect(f, func(n ast.Node) bool {
				switch x := n.(type) {
				case *ast.GoStmt:
					rep.Unseamed = append(rep.Unseamed, fmt.Sprintf("%s:%d go statement", rel, p.Fset.Position(x.Pos()).Line))
				case *ast.CallExpr:
					if sel, ok := x.Fun.(*ast.SelectorExpr); ok {
						if obj := p.TypesInfo.Uses[sel.Sel]; obj != nil && obj.Pkg() != nil {
							full := obj.Pkg().Path() + "." + obj.Name()
							switch full {
							case "maps.Keys", "maps.Values", "maps.All", "golang.org/x/exp/maps.Keys", "golang.org/x/exp/maps.Values":
								rep.Unseamed = append(rep.Unseamed, fmt.Sprintf("%s:%d %s", rel, p.Fset.Position(x.Pos()).Line, full))
							}
							if obj.Pkg().Path() == "reflect" && (obj.Name() == "MapKeys" || obj.Name() == "MapRange") {
								rep.Unseamed = append(rep.Unseamed, fmt.Sprintf("%s:%d reflect.%s", rel, p.Fset.Position(x.Pos()).Line, obj.Name()))
							}
						}
					}
				case *ast.SelectorExpr:
					id, ok := x.X.(*ast.Ident)
					if !ok {
						return true
					}
					pn, ok := p.TypesInfo.Uses[id].(*types.PkgName)
					if !ok {
						return true
					}
					line := p.Fset.Position(x.Pos()).Line
					switch {
					case pn.Imported().Path() == "time" && x.Sel.Name == "Now":
						edits = append(edits, edit{off(x.Pos()), off(x.End()), "verifsimrt.Now"})
						rep.ClockSites = append(rep.ClockSites, fmt.Sprintf("%s:%d", rel, line))
						needTimeKeep = id.Name
					case pn.Imported().Path() == "os" && x.Sel.Name == "Getpid":
						edits = append(edits, edit{off(x.Pos()), off(x.End()), "verifsimrt.Getpid"})
						rep.PidSites = append(rep.PidSites, fmt.Sprintf("%s:%d", rel, line))
						needOsKeep = id.Name
					}
				case *ast.RangeStmt:
					tv, ok := p.TypesInfo.Types[x.X]
					if !ok {
						return true
					}
					if _, isMap := tv.Type.Underlying().(*types.Map); !isMap {
						return true
					}
					line := p.Fset.Position(x.Pos()).Line
					site := fmt.Sprintf("%s:%d", rel, line)
					xs := string(src[off(x.X.Pos()):off(x.X.End())])
					counter++
					kv := fmt.Sprintf("__vk%d", counter)
					vv := fmt.Sprintf("__vv%d", counter)
					ok2 := fmt.Sprintf("__vo%d", counter)
					mv := xs
					pre, post := "", ""
					if !pure(x.X) {
						if labeled[x] {
							fatal("%s: labeled range over impure map expression cannot be instrumented", site)
						}
						mv = fmt.Sprintf("__vm%d", counter)
						pre = fmt.Sprintf("{ %s := %s; ", mv, xs)
						post = " }"
					}
					asg := ":="
					if x.Tok == token.ASSIGN {
						asg = "="
					}
					var lhs, rhs []string
					needV := false
					if x.Key != nil {
						if id, isId := x.Key.(*ast.Ident); !isId || id.Name != "_" {
							lhs = append(lhs, string(src[off(x.Key.Pos()):off(x.Key.End())]))
							rhs = append(rhs, kv)
						}
					}
					if x.Value != nil {
						if id, isId := x.Value.(*ast.Ident); !isId || id.Name != "_" {
							lhs = append(lhs, string(src[off(x.Value.Pos()):off(x.Value.End())]))
							rhs = append(rhs, vv)
							needV = true
						}
					}
					var b strings.Builder
					b.WriteString(pre)
					fmt.Fprintf(&b, "for _, %s := range verifsimrt.Order(%q, verifsimrt.Keys(%s)) { ", kv, site, mv)
					vname := "_"
					if needV {
						vname = vv
					}
					fmt.Fprintf(&b, "%s, %s := (%s)[%s]; if !%s { continue }; ", vname, ok2, mv, kv, ok2)
					if len(lhs) > 0 {
						fmt.Fprintf(&b, "%s %s %s; ", strings.Join(lhs, ", "), asg, strings.Join(rhs, ", "))
					}
					edits = append(edits, edit{off(x.For), off(x.Body.Lbrace) + 1, b.String()})
					if post != "" {
						edits = append(edits, edit{off(x.End()), off(x.End()), post})
					}
					rep.RangeSites = append(rep.RangeSites, site)
				}
				return true
			})
			if len(edits) == 0 {
				continue
			}
			// add the import right after the package clause's name, on the same line
			edits = append(edits, edit{off(f.Name.End()), off(f.Name.End()), "; import verifsimrt " + fmt.Sprintf("%q", simrtImport)})
			tail := ""
			if needTimeKeep != "" {
				tail += fmt.Sprintf("\nvar _ %s.Time\n", needTimeKeep)
			}
			if needOsKeep != "" {
				tail += fmt.Sprintf("\nvar _ = %s.Args\n", needOsKeep)
			}
			sort.SliceStable(edits, func(i, j int) bool { return edits[i].start < edits[j].start })
			var out []byte
			cur := 0
			for _, e := range edits {
				if e.start < cur {
					fatal("%s: overlapping edits", rel)
				}
				out = append(out, src[cur:e.start]...)
				out = append(out, e.text...)
				cur = e.end
			}
			out = append(out, src[cur:]...)
			out = append(out, tail...)
			if err := os.WriteFile(fname, out, 0o644); err != nil {
				fatal("%v", err)
			}
		}
	}
	// runtime package and installer
	rt, err := os.ReadFile(*simrtSrc)
	if err != nil {
		fatal("%v", err)
	}
	rtDir := filepath.Join(abs, "internal", "verifsim", "simrt")
	if err := os.MkdirAll(rtDir, 0o755); err != nil {
		fatal("%v", err)
	}
	if err := os.WriteFile(filepath.Join(rtDir, "simrt.go"), rt, 0o644); err != nil {
		fatal("%v", err)
	}
	inst := "//go:build verif\n\npackage main\n\nimport \"" + simrtImport + "\"\n\nfunc init() { simrt.Install() }\n"
	if err := os.WriteFile(filepath.Join(abs, "zz_verif_main.go"), []byte(inst), 0o644); err != nil {
		fatal("%v", err)
	}
	sort.Strings(rep.RangeSites)
	if *reportPath != "" {
		b, _ := json.MarshalIndent(rep, "", " ")
		os.WriteFile(*reportPath, b, 0o644)
	}
	fmt.Fprintf(os.Stderr, "verif-instr: %d map-range sites, %d clock sites, %d pid sites, %d unseamed\n",
		len(rep.RangeSites), len(rep.ClockSites), len(rep.PidSites), len(rep.Unseamed))
}
