// verif-mockinstr instruments *generated* mock files (never mockery itself) for engine M:
//
//   - `import "sync"` is re-pointed at the simulated sync package, keeping the name `sync`;
//   - before every statement of every method body (and of function literals inside them) a
//     scheduling point `__sim.Step(site)` is inserted, preceded by `__sim.Access(recv, path,
//     write, site)` for every receiver-rooted field path and every package-level variable of the
//     generated file that the statement reads or writes (lock method calls excepted).
//
// The rewrite is syntactic (go/ast), so it follows whatever the templates emit. Exit status 2 =
// cannot instrument (build trouble, never a verdict).
//
// usage: verif-mockinstr [-report out.json] file.go...
package main

import (
	"encoding/json"
	"flag"
	"fmt"
	"go/ast"
	"go/format"
	"go/parser"
	"go/token"
	"os"
	"path/filepath"
	"strconv"
	"strings"
)

const simPath = "verif/sim/msim/simsync"

type fileReport struct {
	File     string `json:"file"`
	Steps    int    `json:"steps"`
	Accesses int    `json:"accesses"`
	// calls into testify modelled as critical sections; fields of its objects touched directly
	ForeignCalls  int      `json:"foreign_calls,omitempty"`
	ForeignDirect []string `json:"foreign_direct,omitempty"`
	Paths         []string `json:"paths"`
	SyncRepl      bool     `json:"sync_repointed"`
	PkgVars       []string `json:"package_vars"`
	LockCalls     int      `json:"lock_calls"`
}

var lockMethods = map[string]bool{"Lock": true, "Unlock": true, "RLock": true, "RUnlock": true, "TryLock": true, "TryRLock": true, "Do": true}

type instr struct {
	// captured: variables of the enclosing method that the function literal being instrumented
	// refers to (state shared between invocations of the closure)
	captured map[*ast.Object]bool
	fd       *ast.FuncDecl
	fset     *token.FileSet
	base     string
	recv     string
	pkgVars  map[string]bool
	rep      *fileReport
	paths    map[string]bool
	// testify: the file imports github.com/stretchr/testify/mock; calls into it are modelled as
	// critical sections on its own (invisible) mutex, direct accesses to its fields as unguarded
	testify bool
}

// names through which generated testify code reaches the library's objects: the embedded
// mock.Mock / *mock.Call and the expecter's mock field
var foreignRoots = map[string]bool{"Call": true, "Mock": true, "mock": true}

// methods of mock.Mock promoted into the generated mock struct
var foreignMethods = map[string]bool{"Called": true, "MethodCalled": true, "On": true, "AssertExpectations": true, "AssertCalled": true, "AssertNotCalled": true,
	"AssertNumberOfCalls": true, "Test": true, "TestData": true, "IsMethodCallable": true}

// promoted methods of mock.Mock that take no lock (testify v1.10.0): calling one is touching
// testify's state without its mutex
var foreignUnlocked = map[string]bool{"TestData": true}

func (in *instr) foreignPath(p string) bool {
	if !in.testify {
		return false
	}
	parts := strings.Split(p, ".")
	return len(parts) >= 2 && foreignRoots[parts[0]]
}

func fatal(format string, a ...any) {
	fmt.Fprintf(os.Stderr, "verif-mockinstr: "+format+"\n", a...)
	os.Exit(2)
}

// chain returns the receiver-rooted selector path of e ("calls.Get"), if any.
func (in *instr) chain(e ast.Expr) (string, bool) {
	var parts []string
	for {
		switch x := e.(type) {
		case *ast.SelectorExpr:
			parts = append([]string{x.Sel.Name}, parts...)
			e = x.X
		case *ast.ParenExpr:
			e = x.X
		case *ast.StarExpr:
			e = x.X
		case *ast.Ident:
			if in.recv != "" && x.Name == in.recv && len(parts) > 0 {
				return strings.Join(parts, "."), true
			}
			return "", false
		default:
			return "", false
		}
	}
}

type access struct {
	recv  bool
	path  string
	write bool
	capt  string // name of a captured local variable (its address identifies the location)
	// foreign: "call" = a call into testify, "direct" = a field of one of its objects touched directly
	foreign string
}

// collect gathers the accesses of an expression.
func (in *instr) collect(e ast.Node, write bool, out *[]access) {
	if e == nil {
		return
	}
	switch x := e.(type) {
	case *ast.FuncLit:
		return // body is instrumented on its own, accesses happen when it runs
	case *ast.CallExpr:
		if sel, ok := x.Fun.(*ast.SelectorExpr); ok && lockMethods[sel.Sel.Name] {
			if _, isChain := in.chain(sel.X); isChain {
				in.rep.LockCalls++
				for _, a := range x.Args {
					in.collect(a, false, out)
				}
				return // the lock itself is not a data access
			}
		}
		if sel, ok := x.Fun.(*ast.SelectorExpr); ok && in.testify {
			p, isChain := in.chain(sel)
			if (isChain && (in.foreignPath(p) || foreignMethods[p])) || (!isChain && foreignMethods[sel.Sel.Name]) {
				kind := "call"
				if foreignUnlocked[sel.Sel.Name] {
					kind = "direct"
				}
				*out = append(*out, access{path: sel.Sel.Name + "()", write: true, foreign: kind})
				if !isChain {
					in.collect(sel.X, false, out)
				}
				for _, a := range x.Args {
					in.collect(a, false, out)
				}
				return
			}
		}
		in.collect(x.Fun, false, out)
		for _, a := range x.Args {
			in.collect(a, false, out)
		}
		return
	case *ast.SelectorExpr:
		if p, ok := in.chain(x); ok {
			if in.foreignPath(p) {
				*out = append(*out, access{path: p, write: write, foreign: "direct"})
				return
			}
			*out = append(*out, access{true, p, write, "", ""})
			return
		}
		in.collect(x.X, false, out)
		return
	case *ast.Ident:
		if in.captured != nil && x.Obj != nil && in.captured[x.Obj] {
			*out = append(*out, access{false, "captured." + x.Name, write, x.Name, ""})
			return
		}
		if in.pkgVars[x.Name] {
			*out = append(*out, access{false, "pkg." + x.Name, write, "", ""})
		}
		return
	case *ast.IndexExpr:
		// writing an element is a write of the container for our purposes
		in.collect(x.X, write, out)
		in.collect(x.Index, false, out)
		return
	case *ast.StarExpr:
		in.collect(x.X, write, out)
		return
	case *ast.ParenExpr:
		in.collect(x.X, write, out)
		return
	case *ast.KeyValueExpr:
		in.collect(x.Value, false, out)
		return
	}
	// generic: visit children as reads
	ast.Inspect(e, func(n ast.Node) bool {
		if n == nil || n == e {
			return true
		}
		switch n.(type) {
		case ast.Expr:
			in.collect(n, false, out)
			return false
		}
		return true
	})
}

// header accesses of a statement (not of nested statement lists).
func (in *instr) stmtAccesses(s ast.Stmt) []access {
	var out []access
	switch x := s.(type) {
	case *ast.AssignStmt:
		for _, r := range x.Rhs {
			in.collect(r, false, &out)
		}
		for _, l := range x.Lhs {
			if x.Tok != token.ASSIGN && x.Tok != token.DEFINE {
				in.collect(l, false, &out) // op= reads too
			}
			if id, ok := l.(*ast.Ident); ok && x.Tok == token.DEFINE && !in.pkgVars[id.Name] {
				continue
			}
			in.collect(l, true, &out)
		}
	case *ast.IncDecStmt:
		in.collect(x.X, false, &out)
		in.collect(x.X, true, &out)
	case *ast.ExprStmt:
		in.collect(x.X, false, &out)
	case *ast.ReturnStmt:
		for _, r := range x.Results {
			in.collect(r, false, &out)
		}
	case *ast.IfStmt:
		if x.Init != nil {
			out = append(out, in.stmtAccesses(x.Init)...)
		}
		in.collect(x.Cond, false, &out)
	case *ast.ForStmt:
		if x.Init != nil {
			out = append(out, in.stmtAccesses(x.Init)...)
		}
		if x.Cond != nil {
			in.collect(x.Cond, false, &out)
		}
	case *ast.RangeStmt:
		in.collect(x.X, false, &out)
	case *ast.SwitchStmt:
		if x.Init != nil {
			out = append(out, in.stmtAccesses(x.Init)...)
		}
		if x.Tag != nil {
			in.collect(x.Tag, false, &out)
		}
	case *ast.TypeSwitchStmt:
		if x.Init != nil {
			out = append(out, in.stmtAccesses(x.Init)...)
		}
	case *ast.DeclStmt:
		if gd, ok := x.Decl.(*ast.GenDecl); ok {
			for _, sp := range gd.Specs {
				if vs, ok := sp.(*ast.ValueSpec); ok {
					for _, v := range vs.Values {
						in.collect(v, false, &out)
					}
				}
			}
		}
	case *ast.DeferStmt:
		in.collect(x.Call, false, &out)
	case *ast.GoStmt:
		in.collect(x.Call, false, &out)
	case *ast.SendStmt:
		in.collect(x.Chan, false, &out)
		in.collect(x.Value, false, &out)
	}
	return out
}

func (in *instr) site(s ast.Node) string {
	p := in.fset.Position(s.Pos())
	return fmt.Sprintf("%s:%d", in.base, p.Line)
}

func (in *instr) probes(s ast.Stmt) []ast.Stmt {
	var out []ast.Stmt
	site := &ast.BasicLit{Kind: token.STRING, Value: strconv.Quote(in.site(s))}
	seen := map[access]bool{}
	var foreignCalls []ast.Stmt
	simCall := func(fn string, args ...ast.Expr) ast.Stmt {
		return &ast.ExprStmt{X: &ast.CallExpr{Fun: &ast.SelectorExpr{X: ast.NewIdent("__sim"), Sel: ast.NewIdent(fn)}, Args: args}}
	}
	for _, a := range in.stmtAccesses(s) {
		if seen[a] {
			continue
		}
		seen[a] = true
		if a.foreign == "call" {
			// after the scheduling point, so that the modelled critical section and the call are one step
			in.rep.ForeignCalls++
			foreignCalls = append(foreignCalls, simCall("Foreign", site))
			continue
		}
		if a.foreign == "direct" {
			in.rep.ForeignDirect = append(in.rep.ForeignDirect, in.site(s)+" "+a.path)
			out = append(out, simCall("ForeignAccess", &ast.BasicLit{Kind: token.STRING, Value: strconv.Quote(a.path)}, ast.NewIdent(fmt.Sprint(a.write)), site))
			continue
		}
		var obj ast.Expr = ast.NewIdent("nil")
		if a.recv {
			obj = ast.NewIdent(in.recv)
		}
		if a.capt != "" {
			obj = &ast.UnaryExpr{Op: token.AND, X: ast.NewIdent(a.capt)}
		}
		w := "false"
		if a.write {
			w = "true"
		}
		in.rep.Accesses++
		in.paths[a.path] = true
		out = append(out, &ast.ExprStmt{X: &ast.CallExpr{Fun: &ast.SelectorExpr{X: ast.NewIdent("__sim"), Sel: ast.NewIdent("Access")},
			Args: []ast.Expr{obj, &ast.BasicLit{Kind: token.STRING, Value: strconv.Quote(a.path)}, ast.NewIdent(w), site}}})
	}
	in.rep.Steps++
	out = append(out, &ast.ExprStmt{X: &ast.CallExpr{Fun: &ast.SelectorExpr{X: ast.NewIdent("__sim"), Sel: ast.NewIdent("Step")}, Args: []ast.Expr{site}}})
	out = append(out, foreignCalls...)
	return out
}

func (in *instr) list(stmts []ast.Stmt) []ast.Stmt {
	var out []ast.Stmt
	for _, s := range stmts {
		in.nested(s)
		if _, isLabeled := s.(*ast.LabeledStmt); !isLabeled {
			out = append(out, in.probes(s)...)
		}
		out = append(out, s)
	}
	return out
}

// nested instruments statement lists inside s and function literals in its expressions.
func (in *instr) nested(s ast.Stmt) {
	switch x := s.(type) {
	case *ast.BlockStmt:
		x.List = in.list(x.List)
		return
	case *ast.IfStmt:
		in.funcLits(x.Init)
		in.funcLits(x.Cond)
		x.Body.List = in.list(x.Body.List)
		if x.Else != nil {
			in.nested(x.Else)
		}
		return
	case *ast.ForStmt:
		x.Body.List = in.list(x.Body.List)
		return
	case *ast.RangeStmt:
		x.Body.List = in.list(x.Body.List)
		return
	case *ast.SwitchStmt:
		for _, c := range x.Body.List {
			cc := c.(*ast.CaseClause)
			cc.Body = in.list(cc.Body)
		}
		return
	case *ast.TypeSwitchStmt:
		for _, c := range x.Body.List {
			cc := c.(*ast.CaseClause)
			cc.Body = in.list(cc.Body)
		}
		return
	case *ast.SelectStmt:
		for _, c := range x.Body.List {
			cc := c.(*ast.CommClause)
			cc.Body = in.list(cc.Body)
		}
		return
	case *ast.LabeledStmt:
		in.nested(x.Stmt)
		return
	}
	in.funcLits(s)
}

func (in *instr) funcLits(n ast.Node) {
	if n == nil {
		return
	}
	switch v := n.(type) { // typed nils
	case ast.Stmt:
		if v == nil {
			return
		}
	case ast.Expr:
		if v == nil {
			return
		}
	}
	ast.Inspect(n, func(m ast.Node) bool {
		if fl, ok := m.(*ast.FuncLit); ok {
			saved := in.captured
			capt := map[*ast.Object]bool{}
			for k := range saved {
				capt[k] = true
			}
			if in.fd != nil {
				ast.Inspect(fl.Body, func(n ast.Node) bool {
					id, ok := n.(*ast.Ident)
					if !ok || id.Obj == nil || id.Obj.Kind != ast.Var || id.Name == "_" || id.Name == in.recv {
						return true
					}
					pos := id.Obj.Pos()
					if pos >= in.fd.Pos() && pos < in.fd.End() && (pos < fl.Pos() || pos >= fl.End()) {
						capt[id.Obj] = true
					}
					return true
				})
			}
			in.captured = capt
			fl.Body.List = in.list(fl.Body.List)
			in.captured = saved
			return false
		}
		return true
	})
}

func main() {
	reportPath := flag.String("report", "", "JSON report")
	flag.Parse()
	var reports []fileReport
	for _, path := range flag.Args() {
		fset := token.NewFileSet()
		f, err := parser.ParseFile(fset, path, nil, 0) // with object resolution: captured variables are recognised through it
		if err != nil {
			fatal("%v", err)
		}
		rep := fileReport{File: path}
		in := &instr{fset: fset, base: filepath.Base(filepath.Dir(path)) + "/" + filepath.Base(path), pkgVars: map[string]bool{}, rep: &rep, paths: map[string]bool{}}
		for _, d := range f.Decls {
			if gd, ok := d.(*ast.GenDecl); ok && gd.Tok == token.VAR {
				for _, sp := range gd.Specs {
					for _, n := range sp.(*ast.ValueSpec).Names {
						if n.Name != "_" {
							in.pkgVars[n.Name] = true
							rep.PkgVars = append(rep.PkgVars, n.Name)
						}
					}
				}
			}
		}
		// imports
		for _, im := range f.Imports {
			if p, _ := strconv.Unquote(im.Path.Value); p == "github.com/stretchr/testify/mock" {
				in.testify = true
			}
			if p, _ := strconv.Unquote(im.Path.Value); p == "sync" {
				name := "sync"
				if im.Name != nil {
					name = im.Name.Name
				}
				im.Name = ast.NewIdent(name)
				im.Path.Value = strconv.Quote(simPath)
				rep.SyncRepl = true
			}
		}
		for _, d := range f.Decls {
			fd, ok := d.(*ast.FuncDecl)
			if !ok || fd.Body == nil || fd.Recv == nil || len(fd.Recv.List) == 0 {
				continue
			}
			in.recv = ""
			if len(fd.Recv.List[0].Names) > 0 {
				in.recv = fd.Recv.List[0].Names[0].Name
			}
			in.fd = fd
			in.captured = nil
			fd.Body.List = in.list(fd.Body.List)
		}
		// add the probe import as a separate declaration right after the existing imports
		imp := &ast.GenDecl{Tok: token.IMPORT, Specs: []ast.Spec{&ast.ImportSpec{Name: ast.NewIdent("__sim"), Path: &ast.BasicLit{Kind: token.STRING, Value: strconv.Quote(simPath)}}}}
		pos := 0
		for i, d := range f.Decls {
			if gd, ok := d.(*ast.GenDecl); ok && gd.Tok == token.IMPORT {
				pos = i + 1
			}
		}
		f.Decls = append(f.Decls[:pos], append([]ast.Decl{imp}, f.Decls[pos:]...)...)
		f.Comments = nil
		for _, d := range f.Decls {
			switch x := d.(type) {
			case *ast.FuncDecl:
				x.Doc = nil
			case *ast.GenDecl:
				x.Doc = nil
			}
		}
		out, err := os.Create(path)
		if err != nil {
			fatal("%v", err)
		}
		if err := format.Node(out, fset, f); err != nil {
			out.Close()
			fatal("printing %s: %v", path, err)
		}
		out.Close()
		// the result must parse again
		if _, err := parser.ParseFile(token.NewFileSet(), path, nil, 0); err != nil {
			fatal("instrumented %s does not parse: %v", path, err)
		}
		for p := range in.paths {
			rep.Paths = append(rep.Paths, p)
		}
		reports = append(reports, rep)
	}
	if *reportPath != "" {
		b, _ := json.MarshalIndent(reports, "", " ")
		os.WriteFile(*reportPath, b, 0o644)
	}
}
