// verifctl is the entry point behind ./check:
//
//	verifctl <ID> quick|thorough      run the check for one property
//	verifctl replay <file>            re-execute a replay file against the current tree
//	verifctl selftest [engine]        determinism self-test
package main

import (
	"fmt"
	"os"

	"verif/sim/checks"
	"verif/sim/core"
)

func usage() {
	fmt.Fprintln(os.Stderr, "usage: check <ID> quick|thorough | check replay <file> | check selftest")
	os.Exit(2)
}

func main() {
	if len(os.Args) < 2 {
		usage()
	}
	switch os.Args[1] {
	case "replay":
		if len(os.Args) < 3 {
			usage()
		}
		rp := core.ReadReplay(os.Args[2])
		c := core.NewCtx(rp.Property, "quick")
		prep := checks.Preparers[rp.Property]
		f := checks.Replayers[rp.Property]
		if prep == nil || f == nil {
			core.Troublef("no replayer for property %s", rp.Property)
		}
		if b := checks.BeforeReplay[rp.Property]; b != nil {
			b(rp)
		}
		prep(c)
		violated, detail := f(c, rp)
		if violated {
			fmt.Printf("VIOLATION property=%s replay=%s\n  %s\n", rp.Property, os.Args[2], detail)
			core.Exit(core.ExitViolation)
		}
		fmt.Printf("replay %s: property %s held (no violation reproduced)\n", os.Args[2], rp.Property)
		core.Exit(core.ExitOK)
	case "selftest":
		c := core.NewCtx("SELFTEST", "quick")
		core.Exit(checks.SelfTest(c, os.Args[2:]))
	default:
		if len(os.Args) < 3 || (os.Args[2] != "quick" && os.Args[2] != "thorough") {
			usage()
		}
		run := checks.Runners[os.Args[1]]
		if run == nil {
			fmt.Fprintf(os.Stderr, "unknown property %s\n", os.Args[1])
			os.Exit(2)
		}
		c := core.NewCtx(os.Args[1], os.Args[2])
		fmt.Printf("VERIF_SEED=%d property=%s tier=%s jobs=%d\n", int64(c.Seed&0x7fffffffffffffff), c.Prop, c.Tier, c.Jobs)
		core.Exit(run(c))
	}
}
