#!/bin/bash
# validates MANIFEST.json and every evidence file against the given schemas
cd "$(dirname "$0")"
python3-vt - <<'PY'
import json,jsonschema,glob,sys
ok=True
try:
    jsonschema.validate(json.load(open('MANIFEST.json')),json.load(open('/root/.vp/MANIFEST.schema.json'))); print('MANIFEST ok')
except Exception as e: print('MANIFEST INVALID',e); ok=False
s=json.load(open('/root/.vp/EVIDENCE.schema.json'))
for f in sorted(glob.glob('evidence/*.json')):
    try: jsonschema.validate(json.load(open(f)),s); print(f,'ok')
    except Exception as e: print(f,'INVALID',str(e)[:300]); ok=False
sys.exit(0 if ok else 1)
PY
