#!/usr/bin/env python3
"""Regenerates MANIFEST.json from the table below (kept next to the checks so that the
manifest, the claimed set and the not-applicable reasons stay in one place)."""
import json, sys
BASELINE_CMD = "cd /repo && export GOPROXY=off && go test -vet=off -count=1 -timeout 25m ./... && (cd internal/fixtures/example_project/pkg_with_submodules && go test -vet=off -count=1 ./...)"
CLAIMED = {
 "C06": dict(engine="W", cat="exploration", tech="deterministic simulation: seeded map-iteration schedules, clocks and pids over generated worlds; differential replicate oracle + re-run histories",
   text="Seeded search over (world, map-iteration schedule, clock, pid): each generated multi-package world is run k times by the instrumented CLI under forced extreme (asc/desc), rotated and random iteration orders at every map-range site, with clocks years apart; exit status and whole-tree digest must agree, and two re-runs over the result tree must leave it byte-identical. Sampling, not proof; no model of mockery is involved, so a disagreement is a behaviour of the real code.",
   ref="§4 C06", note="Trusted: the source-to-source seam (every order it produces is one Go may produce); dependencies and `go list` run un-instrumented; worlds are bounded (≤5 packages, ≤3 interfaces each)."),
 "C09": dict(engine="W", cat="fault_enumeration", tech="deterministic simulation with fault injection: enumerated invalidity classes x configuration levels x seeded map-iteration schedules on generated worlds; scripted HTTP origin faults; exit-status/diagnostic/no-panic oracle",
   text="Every invalidity class the statement lists (missing interface, load/type error, unknown template/formatter/key, bad regex, cyclic templated value, schema-rejected template-data, per-file conflicts, template/schema retrieval faults through the simulated transport, unwritable output paths) is injected alone at every configuration level where mockery consults the setting, and in seeded pairs, into valid multi-package worlds run by the instrumented CLI under forced asc/desc (thorough: also random) iteration orders: exit must be non-zero with a diagnostic and no Go panic; valid-but-unusual worlds (function-local interfaces, build tags, doc-only packages, go.mod module-line spellings) must exit 0 with every configured mock on disk. The single-fault matrix is enumerated completely per baseline world; worlds and pairs are sampled.",
   ref="§4 C09", note="Trusted: fault injectors place each invalidity where the setting is consulted; `go list` and dependencies run for real, un-instrumented. Which files are written after a failure is judged by C10, not here."),
 "C10": dict(engine="W", cat="fault_enumeration", tech="deterministic simulation with fault injection: initial tree states x force-file-write placement x one injected stage fault per run x seeded map-iteration schedules; before/after snapshot oracle against a differential reference run",
   text="Generated multi-file worlds are run by the instrumented CLI from every combination class of initial output-path state (absent, previous generation, user content, directory), force-file-write placed at root/package/interface level, and one stage fault (template retrieval via file:// or the simulated transport, schema validation at package or interface level, template execution, formatting) aimed at one file, each under asc/desc/random iteration orders so the faulted file is reached first, in the middle and last. Snapshot oracle: no path outside the designated outputs changes, an existing path is never replaced without force-file-write (and the run then fails), every designated path holds its complete old state or the complete content of a fault-free reference run, and a faulted file keeps its old state. Fault kinds and initial states are enumerated; worlds and combinations are seeded samples.",
   ref="§4 C10", note="Trusted: 'complete new content' comes from a fault-free reference run of the same binary; write errors/torn writes/crashes inside WriteFile are outside the statement and not injected."),
 "C12": dict(engine="W", cat="fault_enumeration", tech="deterministic simulation with fault injection: schema/template origins served by a scripted transport and the simulated tree with enumerated retrieval faults, x require flag x data kind x placement level x seeded map-iteration schedules; outcome model from the statement",
   text="Generated worlds of 1-3 packages choose per package a template (testify, matryer, file://, http://, https://), a schema location (default <template>.schema.json or explicit template-schema), a schema availability (ok or one of 404/500/transport error/truncated/empty/not JSON/missing file, injected by the simulated transport or tree), require-template-schema-exists (unset/true/false) and template-data of a kind (conforming, empty, missing required, extra key, wrong type, lower-level override) placed at root, package, interface config, configs entry or split across two levels; packages may share a template URL while differing in template-schema (cache history depends on iteration order, so each world runs under asc/desc/random). A small outcome model written from the statement marks each output file reject / accept / open; oracle: rejected files are never written and the run fails; with nothing to reject the run succeeds and every file is written. The open combination (require=false, schema retrievable, non-conforming data) is run and counted, not judged.",
   ref="§4 C12", note="Trusted: the oracle's own evaluator for the flat schema family it generates and for the built-in schemas read from the tree under test; downward merge of flat template-data maps with the lower level winning."),
 "C18": dict(engine="W", cat="exploration", tech="deterministic simulation: seeded operation histories (init/showconfig/run interleaved with harness mutations of the config path) on a simulated project tree, snapshot after every operation, tree model + differential default check",
   text="Seeded histories of 2-10 operations on one generated project tree: `mockery init <string>` with any --config target (default, relative, nested, absolute, missing parent) and any package string (real packages and 36 YAML-significant strings, each initialised and loaded back at least twice), showconfig, plain runs, and harness mutations/deletions of the target (empty, hand-written, binary content). Around every operation the whole tree is snapshotted and compared with a tree model: init on a present target changes nothing and fails; on an absent target it creates exactly that file; the file parses as YAML with exactly one package key byte-identical to the argument, is accepted by mockery's own loader with the key unchanged, resolves to the same configuration as the loader's defaults (differential), and for a real package a following plain run generates a mock for every interface.",
   ref="§4 C18", note="Trusted: 'documented defaults' are taken to be the loader's own defaults (differential showconfig), not the docs table; behaviour for a missing parent directory is only held to all-or-nothing."),
 "C15": dict(engine="W", cat="exploration", tech="deterministic simulation: seeded call histories on the real allocator objects under seeded map-iteration schedules (bulk in-process driver built from the instrumented tree + generated probe templates in real CLI runs), judged by a set model and a twin-scope differential",
   text="Seeded histories (5-60 operations plus probes) of AllocateName/SuggestName/AddName/NameExists on the scopes of two methods with identical signatures - built exactly as the generator builds them - and of AddImport/Imports/PkgQualifier on the file registry, with prefixes, names and (path, package name) pairs drawn to collide with parameters, qualifiers, earlier results and digit-suffixed names; some histories hammer one prefix. Each history runs under asc, desc and random iteration orders at the instrumented range sites in template/ and the three result vectors must agree. Oracle: every allocated name is new to the scope; NameExists is monotone and true for allocated/added names; the twin scope that additionally receives SuggestName calls returns identical results; AddImport is a function of the path, injective on paths, never returns another import's qualifier; Imports is strictly ascending by path, complete and duplicate-free; PkgQualifier agrees. ~90 000 histories per quick run in process, 150 end to end.",
   ref="§4 C15", note="Trusted: the model treats as visible only what the scope was told or reported (parameters, NameExists=true, allocated, added); a path has one package name."),
}
NA = {
 "C01": "pure (sources, configuration) -> bytes relation with no schedule, clock, fault or carried state; its only order-dependence residue is decided by C06",
 "C02": "static relation between an interface and the generated type; no schedule, fault or history for a simulator to own",
 "C07": "pure decision table over one configuration; its single schedule-dependent ingredient (recursive injection, first writer wins) is decided by C06",
 "C08": "pure resolution function of the configuration tree; order/alias effects surface as C06 disagreements",
 "C11": "pure function of (expression, layout); termination of a sequential 20-iteration loop; the never-stabilises clause is a C09 fault class",
 "C13": "pure function of (signature, replace-type configuration)",
 "C14": "pure function of (signature, configuration) -> template data model",
 "C16": "pure functions of their argument tuples",
 "C17": "pure config -> header bytes, then a static toolchain question",
 "C19": "one invocation, pure v2 -> v3 mapping; no state survives between invocations and no fault is in the statement",
}
PENDING = "claimed in DESIGN.md; its simulation check is still under construction in this round, so it is not claimed yet"
ALL = ["C%02d" % i for i in range(1, 21)]
checks = []
for pid in ALL:
    if pid in CLAIMED:
        c = CLAIMED[pid]
        checks.append({
            "property_id": pid, "quick_cmd": "./check %s quick" % pid, "thorough_cmd": "./check %s thorough" % pid,
            "evidence_file": "evidence/%s.json" % pid, "replay_cmd_template": "./check replay {path}", "engine": c["engine"],
            "level_claimed": {"category": c["cat"], "text": c["text"], "design_ref": c["ref"]},
            "level_note": c["note"], "technique": c["tech"]})
na = []
for pid in ALL:
    if pid in CLAIMED: continue
    na.append({"property_id": pid, "reason": NA.get(pid, PENDING)})
m = {
 "version": 1, "setup_cmd": "./setup.sh",
 "hooks": {"guard": "verif", "enable": "no hook is committed to /repo: each check rsyncs /repo's working tree to a tmpfs scratch copy, rewrites it with bin/verif-instr (map-range sites, time.Now, os.Getpid -> simrt; scripted http.DefaultTransport installed by an added //go:build verif file) and builds it with -tags verif",
           "baseline_off_cmd": BASELINE_CMD, "source_commits": [], "add_only": True},
 "engines": [
  {"name": "W", "path": "sim/world", "serves_properties": ["C06","C09","C10","C12","C15","C18"], "kind_free_text": "CLI world simulator: instrumented mockery child runs on generated trees under seeded map-iteration order, clock, pid and scripted HTTP origins"},
  {"name": "M", "path": "sim/msim", "serves_properties": ["C03","C04","C05"], "kind_free_text": "generated-mock simulator: cooperative seeded scheduler, simulated sync, vector-clock race detector, porcupine linearizability"},
  {"name": "G", "path": "sim/gsim", "serves_properties": ["C20"], "kind_free_text": "repository-history simulator for the release tagger"}],
 "checks": checks, "not_applicable": na,
 "notes": "All checks: exit 0 held / exit 1 + VIOLATION line / exit 2 build or watchdog trouble. known_findings.json lists genuine defects (known or fixed)."}
json.dump(m, open("MANIFEST.json", "w"), indent=1)
print("claimed:", [c["property_id"] for c in checks])
